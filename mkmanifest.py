#!/usr/bin/env python3
"""Regenerates /verif/MANIFEST.json from the table below (kept in one place so that the
manifest stays valid while checks are added)."""
import json, subprocess, sys

TECH = ("bounded symbolic model checking of the real code: go/ssa of /repo -> QF_BV (gobmc), "
        "schedule/inputs/cancellations as solver variables, z3 decides; counterexamples replayed natively")

# property -> (claimed?, level text, level note, design ref)
CLAIMED = {
}

PENDING = {}

def load_table():
    # the table lives in checks.json so that it can be edited without touching this script
    return json.load(open('/verif/checks.json'))

def main():
    tbl = load_table()
    checks = []
    na = []
    props = [json.loads(l) for l in open('/verif/properties.jsonl')]
    for p in props:
        pid = p['id']
        e = tbl.get(pid)
        if not e or not e.get('claimed'):
            na.append({"property_id": pid, "reason": (e or {}).get('reason', 'check not built yet (work in progress)')})
            continue
        c = {
            "property_id": pid,
            "quick_cmd": f"/verif/bin/check -p {pid} -tier quick",
            "thorough_cmd": f"/verif/bin/check -p {pid} -tier thorough",
            "evidence_file": f"/verif/evidence/{pid}.json",
            "replay_cmd_template": "/verif/bin/check -replay {path}",
            "engine": "gobmc",
            "level_claimed": {
                "category": "model_checking",
                "text": e['text'],
                "design_ref": e.get('design_ref', 'DESIGN.md section 2, ' + pid),
            },
            "level_note": e['note'],
            "technique": e.get('technique', TECH),
        }
        checks.append(c)
    man = {
        "version": 1,
        "setup_cmd": "cd /verif/gobmc && export GOFLAGS=-mod=mod GOPROXY=off GOSUMDB=off GOTOOLCHAIN=local && mkdir -p /verif/bin && go build -o /verif/bin/gobmc ./cmd/gobmc && go build -o /verif/bin/check ./cmd/check",
        "hooks": {
            "guard": "verif",
            "enable": "none needed: the engine reads /repo's sources through go/packages, self-test mutants and replay instrumentation are injected with overlays (packages.Config.Overlay, go test -overlay); no verif-tagged code exists in /repo",
            "baseline_off_cmd": "cd /repo && go test -mod=mod -vet=off -count=1 -timeout 25m ./...",
            "source_commits": [],
            "add_only": True,
        },
        "engines": [{
            "name": "gobmc",
            "path": "/verif/gobmc",
            "serves_properties": [c['property_id'] for c in checks],
            "kind_free_text": "own bounded model checker for Go: go/ssa (x/tools v0.29.0) of /repo's working tree + harness -> lock-step merged symbolic execution -> SMT-LIB2 QF_BV -> z3 4.8.12; models decoded into traces and replayed on the native build (vinstr overlay + vsched cooperative scheduler)",
        }],
        "checks": checks,
        "not_applicable": na,
        "notes": "See DESIGN.md. Every check regenerates its encoding from /repo's current working tree on every run. exit 1 only for a counterexample that reproduced on the natively compiled code and is not listed in known_findings.json.",
    }
    json.dump(man, open('/verif/MANIFEST.json', 'w'), indent=1)
    print("checks:", [c['property_id'] for c in checks], "n/a:", [n['property_id'] for n in na])

main()
