#!/bin/bash
# runquick.sh: run every property's quick check sequentially (as the harness does), logging the
# wall time and the summary line; evidence files are rewritten by the checks themselves.
out=${1:-/tmp/runquick.log}
: > $out
for i in 01 02 03 04 05 06 07 08 09 10 11 12 13 14 15 16 17 18 19 20; do
  t0=$(date +%s)
  res=$(/verif/bin/check -p C$i -tier quick 2>&1)
  rc=$?
  t1=$(date +%s)
  echo "C$i exit=$rc secs=$((t1-t0)) :: $(echo "$res" | tail -n 1)" >> $out
  echo "$res" | grep "^VIOLATION\|^INCONCLUSIVE\|^UNREPRODUCED\|^COVER-REPLAY\|^KNOWN" | cut -c1-300 | sed "s/^/    /" >> $out
done
