// Package smt is a tiny hash-consed term library (Bool + fixed-width bit-vectors) with
// constant folding, emitting SMT-LIB2.
package smt

import (
	"fmt"
	"math/big"
	"sort"
	"strings"
)

type Sort int // 0 = Bool, n>0 = (_ BitVec n)

type Term struct {
	ID     int
	Op     string
	Args   []*Term
	S      Sort
	Val    *big.Int // for const (bv) ; for bool const Val=0/1
	Name   string   // for var
	P1, P2 int      // extract hi/lo, zext n
}

type Ctx struct {
	tab    map[string]*Term
	eqMemo map[[2]int]*Term
	terms  []*Term
	Vars   []*Term
	T, F   *Term
}

func New() *Ctx {
	c := &Ctx{tab: map[string]*Term{}, eqMemo: map[[2]int]*Term{}}
	c.T = c.mk(&Term{Op: "true", S: 0, Val: big.NewInt(1)})
	c.F = c.mk(&Term{Op: "false", S: 0, Val: big.NewInt(0)})
	return c
}

func (c *Ctx) key(t *Term) string {
	var sb strings.Builder
	sb.WriteString(t.Op)
	fmt.Fprintf(&sb, ":%d:%d:%d", t.S, t.P1, t.P2)
	if t.Val != nil {
		sb.WriteString(":v" + t.Val.String())
	}
	if t.Name != "" {
		sb.WriteString(":n" + t.Name)
	}
	for _, a := range t.Args {
		fmt.Fprintf(&sb, ",%d", a.ID)
	}
	return sb.String()
}

func (c *Ctx) mk(t *Term) *Term {
	k := c.key(t)
	if x, ok := c.tab[k]; ok {
		return x
	}
	t.ID = len(c.terms)
	c.terms = append(c.terms, t)
	c.tab[k] = t
	return t
}

func (c *Ctx) NumTerms() int { return len(c.terms) }

func (c *Ctx) Var(name string, s Sort) *Term {
	t := c.mk(&Term{Op: "var", S: s, Name: name})
	if t.ID == len(c.terms)-1 && (len(c.Vars) == 0 || c.Vars[len(c.Vars)-1] != t) {
		c.Vars = append(c.Vars, t)
	}
	return t
}

func (c *Ctx) Bool(b bool) *Term {
	if b {
		return c.T
	}
	return c.F
}

func mask(w Sort) *big.Int {
	m := new(big.Int).Lsh(big.NewInt(1), uint(w))
	return m.Sub(m, big.NewInt(1))
}

func (c *Ctx) BV(v int64, w Sort) *Term {
	b := big.NewInt(v)
	b.And(b, mask(w))
	return c.mk(&Term{Op: "bv", S: w, Val: b})
}
func (c *Ctx) BVBig(v *big.Int, w Sort) *Term {
	b := new(big.Int).And(v, mask(w))
	return c.mk(&Term{Op: "bv", S: w, Val: b})
}

func (t *Term) IsConst() bool { return t.Op == "true" || t.Op == "false" || t.Op == "bv" }
func (t *Term) IsTrue() bool  { return t.Op == "true" }
func (t *Term) IsFalse() bool { return t.Op == "false" }

// Signed returns the signed interpretation of a bv const.
func (t *Term) Signed() int64 {
	v := new(big.Int).Set(t.Val)
	if v.Bit(int(t.S)-1) == 1 {
		v.Sub(v, new(big.Int).Lsh(big.NewInt(1), uint(t.S)))
	}
	return v.Int64()
}

func (c *Ctx) Not(a *Term) *Term {
	switch {
	case a.IsTrue():
		return c.F
	case a.IsFalse():
		return c.T
	case a.Op == "not":
		return a.Args[0]
	}
	return c.mk(&Term{Op: "not", S: 0, Args: []*Term{a}})
}

func (c *Ctx) nary(op string, unit, zero *Term, as []*Term) *Term {
	seen := map[int]bool{}
	var out []*Term
	var flat func(x *Term) bool
	flat = func(x *Term) bool {
		if x == zero {
			return false
		}
		if x == unit {
			return true
		}
		if x.Op == op && len(x.Args) <= 2 && len(as) <= 2 {
			for _, y := range x.Args {
				if !flat(y) {
					return false
				}
			}
			return true
		}
		if !seen[x.ID] {
			seen[x.ID] = true
			out = append(out, x)
		}
		return true
	}
	for _, a := range as {
		if !flat(a) {
			return zero
		}
	}
	for _, x := range out {
		if x.Op == "not" && seen[x.Args[0].ID] {
			return zero
		}
	}
	if len(out) == 0 {
		return unit
	}
	if len(out) == 1 {
		return out[0]
	}
	sort.Slice(out, func(i, j int) bool { return out[i].ID < out[j].ID })
	return c.mk(&Term{Op: op, S: 0, Args: out})
}

func (c *Ctx) And(as ...*Term) *Term    { return c.nary("and", c.T, c.F, as) }
func (c *Ctx) Or(as ...*Term) *Term     { return c.nary("or", c.F, c.T, as) }
func (c *Ctx) Implies(a, b *Term) *Term { return c.Or(c.Not(a), b) }

func (c *Ctx) Ite(g, a, b *Term) *Term {
	if g.IsTrue() {
		return a
	}
	if g.IsFalse() {
		return b
	}
	if a == b {
		return a
	}
	if a.S == 0 {
		if a.IsTrue() && b.IsFalse() {
			return g
		}
		if a.IsFalse() && b.IsTrue() {
			return c.Not(g)
		}
		if a.IsTrue() {
			return c.Or(g, b)
		}
		if a.IsFalse() {
			return c.And(c.Not(g), b)
		}
		if b.IsTrue() {
			return c.Or(c.Not(g), a)
		}
		if b.IsFalse() {
			return c.And(g, a)
		}
	}
	if g.Op == "not" {
		return c.Ite(g.Args[0], b, a)
	}
	// ite(g, x, ite(g, y, z)) -> ite(g,x,z)
	if b.Op == "ite" && b.Args[0] == g {
		return c.Ite(g, a, b.Args[2])
	}
	if a.Op == "ite" && a.Args[0] == g {
		return c.Ite(g, a.Args[1], b)
	}
	return c.mk(&Term{Op: "ite", S: a.S, Args: []*Term{g, a, b}})
}

func (c *Ctx) Eq(a, b *Term) *Term {
	if a == b {
		return c.T
	}
	ck := [2]int{a.ID, b.ID}
	if r, ok := c.eqMemo[ck]; ok {
		return r
	}
	r := c.eq0(a, b)
	c.eqMemo[ck] = r
	return r
}

func (c *Ctx) eq0(a, b *Term) *Term {
	if a.S != b.S {
		panic(fmt.Sprintf("Eq sort mismatch %d %d (%s vs %s)", a.S, b.S, a.Op, b.Op))
	}
	if a.IsConst() && b.IsConst() {
		return c.Bool(a.Val.Cmp(b.Val) == 0)
	}
	if a.S == 0 {
		if a.IsTrue() {
			return b
		}
		if b.IsTrue() {
			return a
		}
		if a.IsFalse() {
			return c.Not(b)
		}
		if b.IsFalse() {
			return c.Not(a)
		}
	}
	// push equality with a constant through ite with constant leaves
	if b.IsConst() && a.Op == "ite" {
		return c.Ite(a.Args[0], c.Eq(a.Args[1], b), c.Eq(a.Args[2], b))
	}
	if a.IsConst() && b.Op == "ite" {
		return c.Ite(b.Args[0], c.Eq(a, b.Args[1]), c.Eq(a, b.Args[2]))
	}
	if a.ID > b.ID {
		a, b = b, a
	}
	return c.mk(&Term{Op: "=", S: 0, Args: []*Term{a, b}})
}

// EqRaw builds an equality without pushing it through ite (used for program counters).
func (c *Ctx) EqRaw(a, b *Term) *Term {
	if a == b {
		return c.T
	}
	if a.IsConst() && b.IsConst() {
		return c.Bool(a.Val.Cmp(b.Val) == 0)
	}
	if a.ID > b.ID {
		a, b = b, a
	}
	return c.mk(&Term{Op: "=", S: 0, Args: []*Term{a, b}})
}

// BinBV builds a bit-vector binary op with constant folding.
func (c *Ctx) BinBV(op string, a, b *Term) *Term {
	if a.S != b.S {
		panic(fmt.Sprintf("BinBV %s sort mismatch %d %d", op, a.S, b.S))
	}
	w := a.S
	if a.IsConst() && b.IsConst() {
		x, y := a.Val, b.Val
		r := new(big.Int)
		switch op {
		case "bvadd":
			r.Add(x, y)
		case "bvsub":
			r.Sub(x, y)
		case "bvmul":
			r.Mul(x, y)
		case "bvand":
			r.And(x, y)
		case "bvor":
			r.Or(x, y)
		case "bvxor":
			r.Xor(x, y)
		case "bvshl":
			if y.Cmp(big.NewInt(int64(w))) >= 0 {
				r.SetInt64(0)
			} else {
				r.Lsh(x, uint(y.Int64()))
			}
		case "bvlshr":
			if y.Cmp(big.NewInt(int64(w))) >= 0 {
				r.SetInt64(0)
			} else {
				r.Rsh(x, uint(y.Int64()))
			}
		case "bvurem":
			if y.Sign() == 0 {
				r.Set(x)
			} else {
				r.Rem(x, y)
			}
		case "bvudiv":
			if y.Sign() == 0 {
				r.Set(mask(w))
			} else {
				r.Quo(x, y)
			}
		case "bvsrem", "bvsdiv", "bvashr":
			sx, sy := big.NewInt(a.Signed()), big.NewInt(b.Signed())
			if op == "bvashr" {
				if sy.Cmp(big.NewInt(int64(w))) >= 0 || sy.Sign() < 0 {
					if sx.Sign() < 0 {
						r.SetInt64(-1)
					}
				} else {
					r.Rsh(sx, uint(sy.Int64()))
				}
			} else if sy.Sign() == 0 {
				goto nofold
			} else if op == "bvsrem" {
				r.Rem(sx, sy)
			} else {
				r.Quo(sx, sy)
			}
		default:
			goto nofold
		}
		return c.BVBig(r, w)
	}
nofold:
	switch op {
	case "bvadd", "bvor", "bvxor":
		if a.IsConst() && a.Val.Sign() == 0 {
			return b
		}
		if b.IsConst() && b.Val.Sign() == 0 {
			return a
		}
	case "bvsub", "bvshl", "bvlshr", "bvashr":
		if b.IsConst() && b.Val.Sign() == 0 {
			return a
		}
	}
	return c.mk(&Term{Op: op, S: w, Args: []*Term{a, b}})
}

// Cmp builds bvult/bvule/bvslt/bvsle.
func (c *Ctx) Cmp(op string, a, b *Term) *Term {
	if a.IsConst() && b.IsConst() {
		switch op {
		case "bvult":
			return c.Bool(a.Val.Cmp(b.Val) < 0)
		case "bvule":
			return c.Bool(a.Val.Cmp(b.Val) <= 0)
		case "bvslt":
			return c.Bool(a.Signed() < b.Signed())
		case "bvsle":
			return c.Bool(a.Signed() <= b.Signed())
		}
	}
	if a == b {
		return c.Bool(op == "bvule" || op == "bvsle")
	}
	return c.mk(&Term{Op: op, S: 0, Args: []*Term{a, b}})
}

func (c *Ctx) Extract(hi, lo int, a *Term) *Term {
	if lo == 0 && hi == int(a.S)-1 {
		return a
	}
	if a.IsConst() {
		r := new(big.Int).Rsh(a.Val, uint(lo))
		return c.BVBig(r, Sort(hi-lo+1))
	}
	return c.mk(&Term{Op: "extract", S: Sort(hi - lo + 1), Args: []*Term{a}, P1: hi, P2: lo})
}

func (c *Ctx) ZExt(n int, a *Term) *Term {
	if n == 0 {
		return a
	}
	if a.IsConst() {
		return c.BVBig(a.Val, a.S+Sort(n))
	}
	return c.mk(&Term{Op: "zext", S: a.S + Sort(n), Args: []*Term{a}, P1: n})
}

func (c *Ctx) SExt(n int, a *Term) *Term {
	if n == 0 {
		return a
	}
	if a.IsConst() {
		return c.BVBig(big.NewInt(a.Signed()), a.S+Sort(n))
	}
	return c.mk(&Term{Op: "sext", S: a.S + Sort(n), Args: []*Term{a}, P1: n})
}

func sortStr(s Sort) string {
	if s == 0 {
		return "Bool"
	}
	return fmt.Sprintf("(_ BitVec %d)", s)
}

func (t *Term) ref() string {
	switch t.Op {
	case "true", "false":
		return t.Op
	case "bv":
		return fmt.Sprintf("(_ bv%s %d)", t.Val.String(), t.S)
	case "var":
		return "|" + t.Name + "|"
	}
	return fmt.Sprintf("t%d", t.ID)
}

// Emit writes declarations and define-funs for every term reachable from roots.
func (c *Ctx) Emit(sb *strings.Builder, emitted map[int]bool, roots ...*Term) {
	var order []*Term
	var visit func(t *Term)
	visit = func(t *Term) {
		if emitted[t.ID] {
			return
		}
		emitted[t.ID] = true
		for _, a := range t.Args {
			visit(a)
		}
		order = append(order, t)
	}
	for _, r := range roots {
		visit(r)
	}
	for _, t := range order {
		switch t.Op {
		case "true", "false", "bv":
		case "var":
			fmt.Fprintf(sb, "(declare-const |%s| %s)\n", t.Name, sortStr(t.S))
		default:
			var body string
			args := make([]string, len(t.Args))
			for i, a := range t.Args {
				args[i] = a.ref()
			}
			switch t.Op {
			case "extract":
				body = fmt.Sprintf("((_ extract %d %d) %s)", t.P1, t.P2, args[0])
			case "zext":
				body = fmt.Sprintf("((_ zero_extend %d) %s)", t.P1, args[0])
			case "sext":
				body = fmt.Sprintf("((_ sign_extend %d) %s)", t.P1, args[0])
			default:
				body = "(" + t.Op + " " + strings.Join(args, " ") + ")"
			}
			fmt.Fprintf(sb, "(declare-const t%d %s)\n(assert (= t%d %s))\n", t.ID, sortStr(t.S), t.ID, body)
		}
	}
}

func Ref(t *Term) string { return t.ref() }
