// Package vrt is the harness vocabulary. The symbolic engine intercepts these calls by name;
// the bodies below are the native implementation used when a counterexample is replayed.
package vrt

import (
	"fmt"
	"runtime"
	"time"

	"gobmc/vsched"
)

func Bool(name string) bool {
	v, _ := vsched.Input(name, "")
	return v != 0
}
func Int(name string, lo, hi int) int {
	if v, ok := vsched.Input(name, ""); ok {
		return int(v)
	}
	return lo
}
func Assume(c bool)                   {}
func Assert(c bool, id string) {
	if !c {
		vsched.Fail("assert " + id)
	}
}
func Cover(id string) {}
func Go(name string, fn func()) {
	_, file, line, _ := runtime.Caller(1)
	vsched.Go(fmt.Sprintf("%s:%d", file, line), fn)
}
func Park()                  { vsched.ParkForever() }
func Advance()               {}
// AtQuiescence: during a replay the instrumenter routes this call to the scheduler; in a free
// native run (race-detector confirmation) quiescence is approximated by a short pause.
func AtQuiescence(fn func()) {
	go func() {
		time.Sleep(20 * time.Millisecond)
		fn()
	}()
}
func Ghost(fn func())        { fn() }

// CallFunc calls f (used as a thread body for intrinsic closures).
func CallFunc(f func()) { f() }

// Atomic runs fn as one indivisible, visible step (harness-owned shared bookkeeping).
func Atomic(fn func()) { fn() }

// Bytes returns an arbitrary byte slice with len <= maxLen and len <= cap <= maxCap.
func Bytes(name string, maxLen, maxCap int) []byte {
	ln, ok1 := vsched.Input(name, ".len")
	cp, ok2 := vsched.Input(name, ".cap")
	if !ok1 || !ok2 {
		return nil
	}
	b := make([]byte, cp)
	for i := range b {
		if v, ok := vsched.Input(name, fmt.Sprintf("[%d]", i)); ok {
			b[i] = byte(v)
		}
	}
	return b[:ln]
}

// String returns an arbitrary string of at most maxLen bytes (any bytes, valid UTF-8 or not).
func String(name string, maxLen int) string {
	ln, ok := vsched.Input(name, ".len")
	if !ok {
		return ""
	}
	b := make([]byte, ln)
	for i := range b {
		if v, ok := vsched.Input(name, fmt.Sprintf("[%d]", i)); ok {
			b[i] = byte(v)
		}
	}
	return string(b)
}

// CancelAnytime lets the environment call cancel at an arbitrary moment.
func CancelAnytime(cancel func()) { vsched.RegisterEnvCancel(cancel) }
