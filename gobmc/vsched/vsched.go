// Package vsched is the native replay runtime: a cooperative controller that runs the goroutines
// of an instrumented build one at a time, in the order given by a solver-produced trace.
package vsched

import (
	"encoding/json"
	"fmt"
	"os"
	"regexp"
	"runtime"
	"strconv"
	"strings"
	"sync"
	"time"
)

type TraceThread struct {
	ID     int    `json:"id"`
	Name   string `json:"name"`
	Parent int    `json:"parent"`
	Site   string `json:"site"` // file:line of the go statement / vrt.Go call
	// ChildIdx: how many threads the parent had spawned before this one
	ChildIdx int `json:"child_idx"`
}
type TraceStep struct {
	Th   int    `json:"th"`
	Stmt string `json:"stmt"` // file:line:col of the enclosing statement of the visible op
	Op   string `json:"op"`
	Pos  string `json:"pos,omitempty"` // file:line of the visible operation itself
	Step int    `json:"step"`          // global step number of the model
	// Sel: for a step that is a blocking select: 1 + index of the communication the model chose
	// (0: not a select)
	Sel int `json:"sel,omitempty"`
}

// EnvCancel: the environment cancels the context armed by the Occ-th vrt.CancelAnytime call of
// thread Owner, at (the beginning of) model step Step.
type EnvCancel struct {
	Step  int `json:"step"`
	Owner int `json:"owner"`
	Occ   int `json:"occ"`
}
type Trace struct {
	Harness   string         `json:"harness"`
	Threads   []TraceThread  `json:"threads"`
	Steps     []TraceStep    `json:"steps"`
	Violation string         `json:"violation"`
	Final     map[int]string `json:"final"` // where each unfinished thread is parked at the end of the trace
	// Inputs: values of the harness's nondeterministic inputs and of the model's internal choices,
	// keyed by the engine's variable name (nd!<name>!<site>, sel!..., env!...)
	Inputs     map[string][]int64 `json:"inputs,omitempty"`
	EnvCancels []EnvCancel        `json:"env_cancels,omitempty"`
	// FinalFn: for every thread that the model leaves blocked: the function containing the
	// blocked operation (the native goroutine must be blocked inside a function of that name)
	FinalFn map[int]string `json:"final_fn,omitempty"`
	// Files: source files of the functions the model executed (instrumented for the replay)
	Files []string `json:"files,omitempty"`
}

type thr struct {
	id       int
	wake     chan struct{}
	future   []string // statements of this thread's remaining trace steps, in order
	skipped  map[string]int
	passOnce string
	curStmt  string
	parkedAt string
	started  bool
	done     bool
	parent   *thr
	site     string
	// fire: for timer callbacks (AfterFunc): makes the goroutine exist; reg is closed once it
	// has registered itself
	fire   func()
	reg    chan struct{}
	yields int
	nspawn int // children spawned so far
	// seen: statement ids whose yield this thread has passed or parked at
	seen map[string]bool
	// inOp: the thread is blocked natively inside the operation of statement parkedAt (the
	// statement's yield was passed earlier: several visible operations in one statement)
	inOp     bool
	inOpStmt string
	// asyncEv: an event of this thread that arrived while another thread was being run (the
	// thread was released from inside a native operation by somebody else's step)
	asyncEv *event
	gid     int64
	idx     int // number of children the parent had spawned before this one
	// selStmt/selChoice: the select statement of the step just granted and the case the model chose
	selStmt   string
	selChoice int
}

// wakeUp grants the thread (starting the goroutine of a timer callback first).
func (t *thr) wakeUp() {
	if t.fire != nil {
		f := t.fire
		t.fire = nil
		f()
		select {
		case <-t.reg:
		case <-time.After(2 * time.Second):
			logf("timer callback of T%d did not start", t.id)
		}
	}
	t.wake <- struct{}{}
}

// AfterFunc is the instrumented form of time.AfterFunc: the timer never expires by itself
// during a replay; the controller fires it when the trace starts the callback's thread.
func AfterFunc(site string, d time.Duration, f func()) *time.Timer {
	if !active {
		return time.AfterFunc(d, f)
	}
	parent := self()
	known := false
	for _, tt := range trace.Threads {
		if sameSite(tt.Site, site) {
			known = true
		}
	}
	if !known {
		logf("unmodelled timer created at %s", site)
		return time.AfterFunc(d, f)
	}
	child := &thr{id: -1, wake: make(chan struct{}), parent: parent, site: site, reg: make(chan struct{})}
	if parent != nil {
		child.idx = parent.nspawn
		parent.nspawn++
	}
	var tm *time.Timer
	tm = time.AfterFunc(1000*time.Hour, func() {
		mu.Lock()
		child.gid = goid()
		byGID[child.gid] = child
		mu.Unlock()
		close(child.reg)
		<-child.wake
		defer func() {
			if r := recover(); r != nil {
				Fail(fmt.Sprintf("panic in T%d: %v", child.id, r))
			}
			child.done = true
			events <- event{child, "exit", ""}
		}()
		f()
	})
	child.fire = func() { tm.Reset(0) }
	mu.Lock()
	unbound = append(unbound, child)
	mu.Unlock()
	return tm
}

type event struct {
	t    *thr
	kind string // "park" | "exit"
	at   string
}

var (
	mu       sync.Mutex
	active   bool
	byGID    = map[int64]*thr{}
	threads  = map[int]*thr{}
	events   = make(chan event, 64)
	trace    *Trace
	claimed  = map[int]bool{}
	unbound  []*thr
	Failures []string
	Log      []string
)

func goid() int64 {
	var buf [64]byte
	n := runtime.Stack(buf[:], false)
	f := strings.Fields(string(buf[:n]))
	id, _ := strconv.ParseInt(f[1], 10, 64)
	return id
}

func self() *thr {
	mu.Lock()
	defer mu.Unlock()
	return byGID[goid()]
}

func logf(format string, a ...interface{}) {
	mu.Lock()
	Log = append(Log, fmt.Sprintf(format, a...))
	mu.Unlock()
}

// Fail records a native property failure (vrt.Assert, panic).
func Fail(msg string) {
	mu.Lock()
	Failures = append(Failures, msg)
	mu.Unlock()
}

// Yield is called by instrumented code before every statement.
func Yield(id string) {
	if !active {
		return
	}
	t := self()
	if t == nil {
		return
	}
	t.yields++
	if t.yields > 60000 {
		// a goroutine that passes this many statements inside one harness run is spinning
		Fail(fmt.Sprintf("livelock: T%d keeps executing without blocking (at %s)", t.id, id))
		t.done = true
		events <- event{t, "exit", ""}
		select {}
	}
	mu.Lock()
	if t.seen == nil {
		t.seen = map[string]bool{}
	}
	t.seen[id] = true
	mu.Unlock()
	if t.passOnce == id {
		t.passOnce = ""
		return
	}
	// park at the first remaining stop that is actually encountered; stops that the native
	// execution has already passed (e.g. a store that completes a call statement) are skipped
	j := -1
	for i, f := range t.future {
		if f == id {
			j = i
			break
		}
	}
	if j < 0 {
		return
	}
	// only steps at the statement that was just granted may be skipped (several visible
	// operations inside one statement); anything else must be reached in order
	for _, f := range t.future[:j] {
		if f != t.curStmt {
			return
		}
	}
	for _, f := range t.future[:j] {
		if t.skipped == nil {
			t.skipped = map[string]int{}
		}
		t.skipped[f]++
	}
	t.future = t.future[j+1:]
	t.parkedAt = id
	events <- event{t, "park", id}
	<-t.wake
}

// selOther reports whether the calling goroutine has just been granted a select step at
// statement id for which the model chose a communication other than i.
func selOther(id string, i int) bool {
	if !active {
		return false
	}
	t := self()
	if t == nil {
		return false
	}
	mu.Lock()
	defer mu.Unlock()
	return t.selStmt == id && t.selChoice >= 0 && t.selChoice != i
}

// SelRecv wraps the channel of the i-th communication of the select statement id: during a
// replay the cases the model did not choose are disabled (nil channel), because Go picks at
// random among the ready ones.
func SelRecv[T any](id string, i int, ch <-chan T) <-chan T {
	if selOther(id, i) {
		return nil
	}
	return ch
}

// SelSend is SelRecv for a send communication.
func SelSend[T any](id string, i int, ch chan<- T) chan<- T {
	if selOther(id, i) {
		return nil
	}
	return ch
}

// Go is the instrumented form of the go statement.
func Go(site string, fn func()) {
	if !active {
		go fn()
		return
	}
	parent := self()
	pid := -1
	if parent != nil {
		pid = parent.id
	}
	// model thread ids are bound lazily, when the trace first needs a thread spawned by this
	// parent at this site (the model may have several slots for one go statement)
	known := false
	for _, tt := range trace.Threads {
		if sameSite(tt.Site, site) {
			known = true
		}
	}
	if !known {
		logf("unmodelled goroutine spawned at %s by T%d", site, pid)
		go fn()
		return
	}
	child := &thr{id: -1, wake: make(chan struct{}), parent: parent, site: site}
	if parent != nil {
		child.idx = parent.nspawn
		parent.nspawn++
	}
	mu.Lock()
	unbound = append(unbound, child)
	mu.Unlock()
	reg := make(chan struct{})
	go func() {
		mu.Lock()
		child.gid = goid()
		byGID[child.gid] = child
		mu.Unlock()
		close(reg)
		<-child.wake // parked at start until first granted
		defer func() {
			if r := recover(); r != nil {
				Fail(fmt.Sprintf("panic in T%d: %v", child.id, r))
			}
			child.done = true
			events <- event{child, "exit", ""}
		}()
		fn()
	}()
	<-reg
}

func sameSite(a, b string) bool {
	// compare file:line
	return fileLine(a) == fileLine(b)
}
func fileLine(s string) string {
	p := strings.Split(s, ":")
	if len(p) >= 2 {
		return p[0] + ":" + p[1]
	}
	return s
}

// Result of a replay.
type Result struct {
	Completed bool     // every trace step was executed in order
	Diverged  string   // non-empty: where the native run left the trace
	Failures  []string // native assertion failures / panics
	Blocked   []int    // threads still blocked after the trace
	// BlockedIn: per blocked thread, the function names on its native stack
	BlockedIn map[int][]string
}

// Run replays the trace, running entry as model thread 0.
func Run(tracePath string, entry func()) Result {
	b, err := os.ReadFile(tracePath)
	if err != nil {
		panic(err)
	}
	trace = &Trace{}
	if err := json.Unmarshal(b, trace); err != nil {
		panic(err)
	}
	active = true
	defer func() { active = false }()
	// thread 0
	claimed[0] = true
	main := &thr{id: 0, wake: make(chan struct{})}
	threads[0] = main
	reg := make(chan struct{})
	go func() {
		mu.Lock()
		main.gid = goid()
		byGID[main.gid] = main
		mu.Unlock()
		close(reg)
		<-main.wake
		defer func() {
			if r := recover(); r != nil {
				Fail(fmt.Sprintf("panic in T0: %v", r))
			}
			main.done = true
			events <- event{main, "exit", ""}
		}()
		entry()
	}()
	<-reg

	res := Result{}
	// steps without a statement position (visible calls run by a function's deferred calls)
	// cannot be stopped at natively: they run as part of the thread's previous segment
	var steps []TraceStep
	for _, st := range trace.Steps {
		if st.Stmt == "?" {
			logf("deferred operation of T%d (%s) is merged into its previous segment", st.Th, st.Op)
			continue
		}
		steps = append(steps, st)
	}
	for k := 0; k < len(steps); k++ {
		st := steps[k]
		getThr := func(id int) *thr {
			mu.Lock()
			defer mu.Unlock()
			if t := threads[id]; t != nil {
				return t
			}
			if id <= 0 || id >= len(trace.Threads) {
				return nil
			}
			tt := trace.Threads[id]
			// first choice: the goroutine that was the parent's ChildIdx-th child
			for i, u := range unbound {
				pid := -1
				if u.parent != nil {
					pid = u.parent.id
				}
				if pid == tt.Parent && sameSite(u.site, tt.Site) && u.idx == tt.ChildIdx {
					u.id = id
					threads[id] = u
					unbound = append(unbound[:i], unbound[i+1:]...)
					return u
				}
			}
			for i, u := range unbound {
				pid := -1
				if u.parent != nil {
					pid = u.parent.id
				}
				if pid == tt.Parent && sameSite(u.site, tt.Site) {
					u.id = id
					threads[id] = u
					unbound = append(unbound[:i], unbound[i+1:]...)
					return u
				}
			}
			return nil
		}
		// the model runs a new thread's local prefix eagerly at spawn time; natively the prefix of
		// the parent runs here, just before one of the children it spawns is first needed
		var ensure func(id, depth int) bool
		ensure = func(id, depth int) bool {
			if getThr(id) != nil {
				return true
			}
			if depth > 8 || id <= 0 {
				return false
			}
			par := trace.Threads[id].Parent
			if !ensure(par, depth+1) {
				return false
			}
			pt := getThr(par)
			if pt == nil || pt.done || pt.started {
				return getThr(id) != nil
			}
			first := ""
			for j := k; j < len(steps); j++ {
				if steps[j].Th == par {
					first = steps[j].Stmt
					break
				}
			}
			if first == "" {
				first = trace.Final[par]
			}
			pt.future = []string{first}
			pt.curStmt = ""
			pt.started = true
			logf("step %d: running the local prefix of T%d up to %s", k, par, first)
			pt.wakeUp()
			select {
			case ev := <-events:
				logf("   T%d %s %s", ev.t.id, ev.kind, ev.at)
			case <-time.After(1500 * time.Millisecond):
				logf("   T%d blocked in its prefix", par)
			}
			return getThr(id) != nil
		}
		if !ensure(st.Th, 0) {
			res.Diverged = fmt.Sprintf("step %d: thread T%d does not exist natively", k, st.Th)
			return finish(res)
		}
		t := getThr(st.Th)
		if t.done {
			if st.Stmt == t.curStmt {
				logf("step %d: T%d already executed %s natively before it finished (same statement)", k, st.Th, st.Stmt)
				continue
			}
			res.Diverged = fmt.Sprintf("step %d: thread T%d already finished", k, st.Th)
			return finish(res)
		}
		// remaining stops of this thread: the statements of its later steps
		var future []string
		for j := k + 1; j < len(steps); j++ {
			if steps[j].Th == st.Th && (len(future) > 0 || steps[j].Stmt != st.Stmt || true) {
				future = append(future, steps[j].Stmt)
			}
		}
		if f, ok := trace.Final[st.Th]; ok {
			future = append(future, f) // the thread must not run past where the model left it
		}
		next := ""
		if len(future) > 0 {
			next = future[0]
		}
		// the thread sits (or sat) inside the native operation of exactly this statement; if it
		// has been released by another thread's step it is already parked further on
		inside := t.inOp && t.inOpStmt == st.Stmt
		if !inside && t.parkedAt != st.Stmt {
			if t.skipped[st.Stmt] > 0 {
				t.skipped[st.Stmt]--
				logf("step %d: T%d already executed %s natively (merged into its previous segment)", k, st.Th, st.Stmt)
				continue
			}
			if t.parkedAt != "" {
				res.Diverged = fmt.Sprintf("step %d: T%d is parked at %s, trace expects %s", k, st.Th, t.parkedAt, st.Stmt)
				return finish(res)
			}
			if st.Stmt != "start" {
				t.passOnce = st.Stmt // coming from thread start: run through the prefix up to this statement
			}
		}
		t.started = true
		t.future = future
		t.curStmt = st.Stmt
		if !(inside && t.asyncEv != nil && t.asyncEv.kind == "park") {
			t.parkedAt = ""
		}
		mu.Lock()
		t.selStmt, t.selChoice = "", -1
		if st.Sel > 0 {
			t.selStmt, t.selChoice = st.Stmt, st.Sel-1
		}
		mu.Unlock()
		fireEnv(st.Step)
		got := false
		if t.inOp {
			// the goroutine sits inside the native operation; other threads' steps (or the
			// environment event just fired) make it proceed by itself
			t.inOp = false
			if t.asyncEv != nil {
				logf("step %d: T%d already proceeded from inside %s (%s %s)", k, st.Th, st.Stmt, t.asyncEv.kind, t.asyncEv.at)
				t.asyncEv = nil
				got = true
			} else {
				logf("step %d: T%d proceeds from inside %s (next stop %s)", k, st.Th, st.Stmt, next)
			}
		} else {
			logf("step %d: grant T%d at %s (next stop %s)", k, st.Th, st.Stmt, next)
			t.wakeUp()
		}
		deadline := time.After(1500 * time.Millisecond)
	wait:
		for !got {
			select {
			case ev := <-events:
				if ev.t != t {
					if ev.t.inOp {
						// a thread that was blocked inside a native operation has been released
						e := ev
						ev.t.asyncEv = &e
						logf("   (T%d released from inside its operation: %s %s)", ev.t.id, ev.kind, ev.at)
						continue wait
					}
					res.Diverged = fmt.Sprintf("step %d: event from T%d while T%d runs", k, ev.t.id, t.id)
					return finish(res)
				}
				logf("   T%d %s %s", t.id, ev.kind, ev.at)
				break wait
			case <-deadline:
				mu.Lock()
				passed := t.seen[next]
				mu.Unlock()
				if next != "" && passed {
					// the next operation belongs to a statement the thread has already entered
					// (e.g. a call made while evaluating the statement took a step of its own):
					// the goroutine is now blocked inside that statement's operation
					t.parkedAt = next
					t.inOp = true
					t.inOpStmt = next
					if len(t.future) > 0 {
						t.future = t.future[1:]
					}
					logf("   T%d is blocked inside %s", t.id, next)
				} else if next != "" {
					res.Diverged = fmt.Sprintf("step %d: T%d blocked natively before reaching %s", k, t.id, next)
					return finish(res)
				} else {
					logf("   T%d blocked (no further steps in trace)", t.id)
				}
				break wait
			}
		}
		if len(Failures) > 0 {
			break // the violation has been observed natively
		}
	}
	res.Completed = true
	// goroutines that exist natively but never took a step in the trace (e.g. blocked at their
	// first operation in the model) are bound now, so that they take part in the quiescence check
	mu.Lock()
	for id := 1; id < len(trace.Threads); id++ {
		if threads[id] != nil {
			continue
		}
		tt := trace.Threads[id]
		pick := -1
		for i, u := range unbound {
			pid := -1
			if u.parent != nil {
				pid = u.parent.id
			}
			if u.fire != nil {
				continue // an unexpired timer never fires by itself
			}
			if pid == tt.Parent && sameSite(u.site, tt.Site) && (u.idx == tt.ChildIdx || pick < 0) {
				pick = i
				if u.idx == tt.ChildIdx {
					break
				}
			}
		}
		if pick >= 0 {
			u := unbound[pick]
			u.id = id
			threads[id] = u
			unbound = append(unbound[:pick], unbound[pick+1:]...)
		}
	}
	// quiescence check: every thread that is not finished is let go; one that still does not
	// finish or reach another yield within the grace period is blocked for real
	var rest []*thr
	for _, t := range threads {
		if !t.done {
			rest = append(rest, t)
		}
	}
	rest = append(rest, unbound...) // goroutines the model has no slot for run freely too
	mu.Unlock()
	for _, t := range rest {
		t.future = nil
		t.curStmt = ""
		select {
		case t.wake <- struct{}{}:
		default:
		}
	}
	deadline := time.After(400 * time.Millisecond)
loop:
	for {
		select {
		case ev := <-events:
			logf("   free run: T%d %s %s", ev.t.id, ev.kind, ev.at)
		case <-deadline:
			break loop
		}
	}
	return finish(res)
}

var fnRe = regexp.MustCompile(`(?m)^([^\s][^\n]*)\([^()\n]*\)$`)

func finish(res Result) Result {
	buf := make([]byte, 1<<20)
	n := runtime.Stack(buf, true)
	blocks := strings.Split(string(buf[:n]), "\n\n")
	mu.Lock()
	res.Failures = append([]string(nil), Failures...)
	res.BlockedIn = map[int][]string{}
	for id, t := range threads {
		if !t.done {
			res.Blocked = append(res.Blocked, id)
			hdr := fmt.Sprintf("goroutine %d [", t.gid)
			for _, b := range blocks {
				if strings.HasPrefix(b, hdr) {
					Log = append(Log, fmt.Sprintf("blocked T%d stack:\n%s", id, b)) // mu is held
					for i, m := range fnRe.FindAllStringSubmatch(b, -1) {
						if i < 14 {
							res.BlockedIn[id] = append(res.BlockedIn[id], m[1])
						}
					}
				}
			}
		}
	}
	mu.Unlock()
	return res
}

var compRe = regexp.MustCompile(`(\[\d+\]|\.len|\.cap)$`)

// Input returns the model's value for the harness input called name requested by the current
// thread (the engine's variable is nd!<name>!T<thread>:<call path>...). suffix selects a
// component ("" for the value itself, ".len", ".cap", "[i]").
func Input(name, suffix string) (int64, bool) {
	if trace == nil {
		return 0, false
	}
	tid := 0
	if t := self(); t != nil && t.id >= 0 {
		tid = t.id
	}
	// a case split decides the value, whatever the (then unconstrained) solver variable says
	if v, ok := trace.Inputs["fix!"+name+suffix]; ok {
		return v[0], true
	}
	pref := "nd!" + name + "!"
	var anyKey string
	n := 0
	for k := range trace.Inputs {
		if !strings.HasPrefix(k, pref) {
			continue
		}
		comp := compRe.FindString(k)
		if comp != suffix {
			continue
		}
		mid := k[len(pref) : len(k)-len(comp)]
		n++
		anyKey = k
		if strings.HasPrefix(mid, fmt.Sprintf("T%d:", tid)) {
			return trace.Inputs[k][0], true
		}
	}
	if n == 1 {
		return trace.Inputs[anyKey][0], true
	}
	if v, ok := trace.Inputs["fix!"+name+suffix]; ok {
		return v[0], true
	}
	return 0, false
}

type envReg struct {
	owner, occ int
	fn         func()
	fired      bool
}

var envRegs []*envReg
var envOcc = map[int]int{}

// RegisterEnvCancel is the native vrt.CancelAnytime: the controller calls fn when the trace says
// the environment cancels.
func RegisterEnvCancel(fn func()) {
	if !active {
		return
	}
	id := 0
	if t := self(); t != nil {
		id = t.id
	}
	mu.Lock()
	r := &envReg{owner: id, occ: envOcc[id], fn: fn}
	envRegs = append(envRegs, r)
	envOcc[id]++
	// a cancellation that the model places in the very macro-step that arms the context (the
	// thread's first step runs CancelAnytime and then reads the context) is already due
	due := false
	if trace != nil {
		for _, ec := range trace.EnvCancels {
			if ec.Owner == r.owner && ec.Occ == r.occ && ec.Step <= envStep {
				due = true
				r.fired = true
			}
		}
	}
	mu.Unlock()
	if due {
		logf("environment cancels the context armed by T%d (#%d) as soon as it is armed", r.owner, r.occ)
		fn()
	}
}

// envStep is the model step of the trace step being replayed (guarded by mu).
var envStep = -1

func fireEnv(step int) {
	if trace == nil {
		return
	}
	mu.Lock()
	envStep = step
	mu.Unlock()
	for _, ec := range trace.EnvCancels {
		if ec.Step > step {
			continue
		}
		mu.Lock()
		var hit *envReg
		for _, r := range envRegs {
			if r.owner == ec.Owner && r.occ == ec.Occ && !r.fired {
				hit = r
			}
		}
		if hit != nil {
			hit.fired = true
		}
		mu.Unlock()
		if hit != nil {
			logf("environment cancels the context armed by T%d (#%d) at model step %d", ec.Owner, ec.Occ, ec.Step)
			hit.fn()
		}
	}
}

// Active reports whether a replay is in progress.
func Active() bool { return active }

// ParkForever is the native vrt.Park: tell the controller, then block.
func ParkForever() {
	if t := self(); active && t != nil {
		t.done = true
		events <- event{t, "parked-forever", ""}
	}
	select {}
}
