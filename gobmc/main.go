package main

import (
	"bufio"
	"encoding/json"
	"go/ast"
	"go/token"

	"flag"
	"fmt"
	"gobmc/vsched"
	"os"
	"os/exec"
	"regexp"
	"sort"
	"strconv"
	"strings"
	"time"

	"gobmc/eng"
	"gobmc/smt"

	"golang.org/x/tools/go/ast/astutil"
	"golang.org/x/tools/go/packages"
	"golang.org/x/tools/go/ssa"
	"golang.org/x/tools/go/ssa/ssautil"
)

func main() {
	hname := flag.String("h", "H_C01_Mutex2", "harness function")
	U := flag.Int("U", 3, "loop unwinding bound")
	K := flag.Int("K", 30, "global steps")
	trace := flag.Bool("trace", false, "trace interpretation")
	solver := flag.String("solver", "z3", "solver binary")
	verbose := flag.Bool("v", false, "per-step stats")
	decode := flag.Bool("decode", true, "print the counterexample trace")
	traceOut := flag.String("traceout", "", "write the decoded counterexample trace (JSON)")
	race := flag.Bool("race", false, "add the data-race violation class (C13)")
	prune := flag.Bool("prune", false, "solver-assisted pruning of infeasible configurations")
	mapcap := flag.Int("mapcap", 3, "slots per map")
	fix := flag.String("fix", "", "case split: name=value,... for harness inputs")
	only := flag.String("only", "", "restrict the violation disjunction to sites containing this substring")
	split := flag.Bool("split", false, "one query per violation site")
	mut := flag.String("mut", "", "overlay: /repo/path.go=/path/to/mutated.go")
	dump := flag.String("dump", "", "write SMT script to file")
	flag.Parse()

	t0 := time.Now()
	cfg := &packages.Config{Mode: packages.LoadAllSyntax, Dir: "."}
	if *mut != "" {
		kv := strings.SplitN(*mut, "=", 2)
		b, err := os.ReadFile(kv[1])
		if err != nil {
			panic(err)
		}
		cfg.Overlay = map[string][]byte{kv[0]: b}
	}
	pkgs, err := packages.Load(cfg, "./harness", "./vrt")
	if err != nil {
		panic(err)
	}
	if packages.PrintErrors(pkgs) > 0 {
		os.Exit(2)
	}
	// position -> enclosing statement in a statement list (where a yield can be inserted)
	fileOf := map[*token.File]*ast.File{}
	var fset *token.FileSet
	packages.Visit(pkgs, nil, func(pk *packages.Package) {
		fset = pk.Fset
		for _, f := range pk.Syntax {
			fileOf[pk.Fset.File(f.Pos())] = f
		}
	})
	stmtOf := func(pos token.Pos, isStore bool) string {
		if !pos.IsValid() {
			return "?"
		}
		f := fileOf[fset.File(pos)]
		if f == nil {
			return "?"
		}
		path, _ := astutil.PathEnclosingInterval(f, pos, pos)
		for i := 0; i+1 < len(path); i++ {
			if st, ok := path[i].(ast.Stmt); ok {
				switch path[i+1].(type) {
				case *ast.BlockStmt, *ast.CaseClause, *ast.CommClause:
					p := fset.Position(st.Pos())
					id := fmt.Sprintf("%s:%d:%d", p.Filename, p.Line, p.Column)
					if as, ok := st.(*ast.AssignStmt); ok && isStore && as.Tok == token.ASSIGN && len(as.Rhs) == 1 {
						if _, isCall := as.Rhs[0].(*ast.CallExpr); isCall {
							id += "#store"
						}
					}
					return id
				}
			}
		}
		return "?"
	}
	prog, spkgs := ssautil.AllPackages(pkgs, ssa.InstantiateGenerics)
	prog.Build()
	var entry *ssa.Function
	for _, sp := range spkgs {
		if sp != nil && sp.Pkg.Name() == "harness" {
			entry = sp.Func(*hname)
		}
	}
	if entry == nil {
		fmt.Println("harness not found")
		os.Exit(2)
	}
	fmt.Printf("load+ssa %.1fs\n", time.Since(t0).Seconds())

	t0 = time.Now()
	m := eng.NewM(prog, *U, *K)
	m.Trace = *trace
	m.RaceCheck = *race
	m.MapCap = *mapcap
	m.Fix = map[string]int64{}
	for _, kv := range strings.Split(*fix, ",") {
		if p := strings.SplitN(kv, "=", 2); len(p) == 2 {
			v, _ := strconv.ParseInt(p[1], 10, 64)
			m.Fix[p[0]] = v
		}
	}
	m.Verbose = *verbose
	for round := 0; ; round++ {
		if m.Pruner != nil {
			m.Pruner.Close()
			m.Pruner = nil
		}
		m.Reset()
		if *prune {
			pr, err := eng.NewPruner("z3")
			if err == nil {
				m.Pruner = pr
			}
		}
		m.Round = round
		m.K = *K
		if round < 2 && *K > 10 {
			m.K = 10 // cheap discovery rounds for the shared-cell fixpoint
		}
		if err := m.Run(entry); err != nil {
			fmt.Println("INCONCLUSIVE:", err)
			os.Exit(0)
		}
		grew := m.SharedUpdate()
		if m.Pruner != nil {
			fmt.Printf("  pruner: %d queries, %d pruned\n", m.Pruner.Queries, m.Pruner.Pruned)
		}
		fmt.Printf("round %d: terms=%d threads=%d firings=%d maxlive=%d shared=%d viol=%d (%.1fs)\n", round, m.Ctx().NumTerms(), m.NumThreads(), m.Stats.Firings, m.Stats.MaxLive, m.NumShared(), len(m.Viol), time.Since(t0).Seconds())
		if !grew && m.K == *K {
			break
		}
	}
	m.DumpShared()

	// build script
	c := m.Ctx()
	var sb strings.Builder
	sb.WriteString("(set-option :produce-models true)\n(set-logic QF_BV)\n")
	emitted := map[int]bool{}
	var roots []*smt.Term
	roots = append(roots, m.Assumes...)
	viol := m.AggViol()
	for _, v := range viol {
		roots = append(roots, v.G)
	}
	for _, k := range sortedCoverKeys(m.Covers) {
		roots = append(roots, m.Covers[k])
	}
	c.Emit(&sb, emitted, roots...)
	// make sure schedule vars are declared
	c.Emit(&sb, emitted, m.Sched...)
	for _, a := range m.Assumes {
		fmt.Fprintf(&sb, "(assert %s)\n", smt.Ref(a))
	}
	type query struct {
		name string
		t    *smt.Term
		v    *eng.Violation
	}
	var qs []query
	for i := range viol {
		v := &viol[i]
		if v.G.IsFalse() {
			continue
		}
		qs = append(qs, query{fmt.Sprintf("%s/%s @%s", v.Kind, v.ID, v.Pos), v.G, v})
	}
	for _, k := range sortedCoverKeys(m.Covers) {
		qs = append(qs, query{"cover/" + k, m.Covers[k], nil})
	}
	// one disjunctive query for all safety violations; split only if it is sat
	if !*split {
		var disj []*smt.Term
		var rest []query
		for _, q := range qs {
			if q.v != nil && q.v.Kind != "bound" {
				if *only != "" && !strings.Contains(q.name, *only) {
					continue
				}
				disj = append(disj, q.t)
			} else {
				rest = append(rest, q)
			}
		}
		all := c.Or(disj...)
		c.Emit(&sb, emitted, all)
		qs = append([]query{{fmt.Sprintf("ALL-VIOLATIONS (%d sites)", len(disj)), all, nil}}, rest...)
	}
	qs = append([]query{{"sanity/assumptions-consistent (expect sat)", c.T, nil}}, qs...)
	var getvals []string
	for _, s := range m.Sched {
		getvals = append(getvals, smt.Ref(s))
	}
	// terms whose model value we want when a violation query is sat
	var fireTerms []*smt.Term
	for _, f := range m.FireLog {
		fireTerms = append(fireTerms, f.G)
	}
	for _, f := range m.FinalLog {
		fireTerms = append(fireTerms, f.G)
	}
	c.Emit(&sb, emitted, fireTerms...)
	for qi, q := range qs {
		fmt.Fprintf(&sb, "(push)\n(assert %s)\n(echo \"QUERY %s\")\n(check-sat)\n", smt.Ref(q.t), strings.ReplaceAll(q.name, "\"", "'"))
		if *decode && strings.HasPrefix(q.name, "ALL-VIOLATIONS") {
			_ = qi
			sb.WriteString("(echo \"MODEL-BEGIN\")\n")
			sb.WriteString("(get-value (")
			for _, f := range m.FireLog {
				sb.WriteString(smt.Ref(f.G) + " ")
			}
			for i := range viol {
				sb.WriteString(smt.Ref(viol[i].G) + " ")
			}
			for _, f := range m.FinalLog {
				sb.WriteString(smt.Ref(f.G) + " ")
			}
			sb.WriteString("))\n")
			sb.WriteString("(echo \"MODEL-END\")\n")
		}
		sb.WriteString("(pop)\n")
	}
	script := sb.String()
	if *dump != "" {
		os.WriteFile(*dump, []byte(script), 0o644)
	}
	fmt.Printf("script: %d bytes, %d queries\n", len(script), len(qs))

	t0 = time.Now()
	cmd := exec.Command(*solver, "-in")
	if strings.Contains(*solver, "cvc5") {
		cmd = exec.Command(*solver, "--incremental", "--lang=smt2")
	}
	cmd.Stdin = strings.NewReader(script)
	out, err := cmd.CombinedOutput()
	if err != nil {
		fmt.Println("solver error:", err)
	}
	sc := bufio.NewScanner(strings.NewReader(string(out)))
	pairRe := regexp.MustCompile(`\(?\(?(t\d+|true|false) (true|false)\)`)
	type firedRec struct {
		f  eng.FireRec
		st string
	}
	var fired []firedRec
	violated := map[int]bool{}
	finals := map[int]string{}
	tr := vsched.Trace{Harness: *hname}
	for i, t := range m.Threads() {
		tr.Threads = append(tr.Threads, vsched.TraceThread{ID: i, Name: t.Name, Parent: t.Parent, Site: t.Site})
	}
	cur := ""
	inModel := false
	for sc.Scan() {
		line := sc.Text()
		if strings.Contains(line, "MODEL-BEGIN") {
			inModel = true
			continue
		}
		if strings.Contains(line, "MODEL-END") {
			inModel = false
			continue
		}
		if inModel {
			// one (term value) pair per line of the batched get-value answer
			for _, mm := range pairRe.FindAllStringSubmatch(line, -1) {
				if mm[2] != "true" {
					continue
				}
				if mm[1] == "true" || mm[1] == "false" {
					continue
				}
				for i, f := range m.FireLog {
					if smt.Ref(f.G) == mm[1] {
						st := stmtOf(f.P, strings.HasPrefix(f.Op, "*") && strings.Contains(f.Op, " = "))
						if f.Pos == "start" {
							st = "start"
						}
						fired = append(fired, firedRec{f, st})
					}
					_ = i
				}
				for i := range viol {
					if smt.Ref(viol[i].G) == mm[1] {
						violated[i] = true
					}
				}
				for _, f := range m.FinalLog {
					if smt.Ref(f.G) == mm[1] {
						finals[f.Th] = stmtOf(f.P, strings.HasPrefix(f.Op, "*") && strings.Contains(f.Op, " = "))
					}
				}
			}
			continue
		}
		if strings.HasPrefix(line, "QUERY ") || strings.HasPrefix(line, "\"QUERY ") {
			cur = strings.Trim(line, "\"")
			continue
		}
		fmt.Printf("  %-8s %s\n", line, cur)
	}
	sort.SliceStable(fired, func(i, j int) bool { return fired[i].f.Step < fired[j].f.Step })
	seenStep := map[int]bool{}
	for _, fr := range fired {
		if seenStep[fr.f.Step] {
			continue
		}
		seenStep[fr.f.Step] = true
		fmt.Printf("    step %2d  T%d %-12s %-40s %s\n", fr.f.Step, fr.f.Th, fr.f.Name, shortPos(fr.f.Pos), fr.f.Op)
		tr.Steps = append(tr.Steps, vsched.TraceStep{Th: fr.f.Th, Stmt: fr.st, Op: fr.f.Op})
	}
	for i := range viol {
		if violated[i] {
			fmt.Printf("    VIOLATED: %s/%s @%s\n", viol[i].Kind, viol[i].ID, viol[i].Pos)
			tr.Violation += fmt.Sprintf("%s/%s @%s; ", viol[i].Kind, viol[i].ID, viol[i].Pos)
		}
	}
	fmt.Printf("solve %.1fs\n", time.Since(t0).Seconds())
	tr.Final = finals
	if *traceOut != "" && len(tr.Steps) > 0 {
		b, _ := json.MarshalIndent(tr, "", " ")
		os.WriteFile(*traceOut, b, 0o644)
		fmt.Println("trace written to", *traceOut)
	}
}

func shortPos(p string) string {
	if i := strings.LastIndex(p, "/"); i >= 0 {
		if j := strings.LastIndex(p[:i], "/"); j >= 0 {
			return p[j+1:]
		}
	}
	return p
}

func sortedCoverKeys(mm map[string]*smt.Term) []string {
	var ks []string
	for k := range mm {
		ks = append(ks, k)
	}
	sort.Strings(ks)
	return ks
}
