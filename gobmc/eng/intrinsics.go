package eng

import (
	"fmt"
	"go/types"
	"strings"

	"gobmc/smt"

	"golang.org/x/tools/go/ssa"
)

func recvNamed(fn *ssa.Function) (pkg, typ string) {
	if fn.Signature.Recv() == nil {
		return "", ""
	}
	t := fn.Signature.Recv().Type()
	if pt, ok := t.(*types.Pointer); ok {
		t = pt.Elem()
	}
	if n, ok := t.(*types.Named); ok && n.Obj().Pkg() != nil {
		return n.Obj().Pkg().Path(), n.Obj().Name()
	}
	return "", ""
}

func fnPkg(fn *ssa.Function) string {
	if fn.Pkg != nil {
		return fn.Pkg.Pkg.Path()
	}
	if o := fn.Origin(); o != nil && o.Pkg != nil {
		return o.Pkg.Pkg.Path()
	}
	if p, _ := recvNamed(fn); p != "" {
		return p
	}
	return ""
}

func (m *M) lockAdd(p *path, a Addr) {
	p.cfg.Locks = append(p.cfg.Locks, a)
	// keep sorted
	for i := len(p.cfg.Locks) - 1; i > 0 && p.cfg.Locks[i] < p.cfg.Locks[i-1]; i-- {
		p.cfg.Locks[i], p.cfg.Locks[i-1] = p.cfg.Locks[i-1], p.cfg.Locks[i]
	}
}
func (m *M) lockDel(p *path, a Addr) {
	for i, l := range p.cfg.Locks {
		if l == a {
			p.cfg.Locks = append(p.cfg.Locks[:i], p.cfg.Locks[i+1:]...)
			return
		}
	}
}

func singleAddr(v Value) (Addr, bool) {
	s, ok := v.(*VSet)
	if !ok || len(s.Alts) != 1 {
		return 0, false
	}
	a, ok := s.Alts[0].C.(Addr)
	return a, ok
}

func constString(v ssa.Value) string {
	if k, ok := v.(*ssa.Const); ok && k.Value != nil {
		return strings.Trim(k.Value.ExactString(), "\"")
	}
	return "?"
}

// intrinsic executes modelled functions. handled=false means: interpret the body.
func (m *M) intrinsic(p *path, fr *Frame, ci ssa.CallInstruction, fn *ssa.Function, args []Value, isDefer bool, work *[]*path) (handled, cont bool) {
	c := m.c
	name := fn.String()
	rp, rt := recvNamed(fn)
	pkg := fnPkg(fn)
	cc := ci.Common()
	switch {
	case rp == "sync" && (rt == "Mutex" || rt == "RWMutex"):
		a, ok := singleAddr(args[0])
		if !ok {
			panic(unsupported("mutex through symbolic pointer"))
		}
		locked := m.memGet(p, a).(VBool).T
		switch fn.Name() {
		case "Lock":
			// enabledness was part of the firing guard
			if m.Single {
				m.violate(p, "stuck", "self-deadlock", ci, locked)
				p.g = c.And(p.g, c.Not(locked))
			}
			m.memSet(p, a, VBool{c.T})
			m.lockAdd(p, a)
			return true, m.done(p, fr, ci, isDefer, nil)
		case "Unlock":
			m.violate(p, "panic", "unlock-of-unlocked", ci, c.Not(locked))
			m.memSet(p, a, VBool{c.F})
			m.lockDel(p, a)
			return true, m.done(p, fr, ci, isDefer, nil)
		case "TryLock":
			if n := m.cellName(a); !m.tryMutex[n] {
				m.tryMutex[n] = true
				m.tryGrew = true
			}
			if locked.IsConst() {
				if locked.IsFalse() {
					m.memSet(p, a, VBool{c.T})
					m.lockAdd(p, a)
				}
				return true, m.done(p, fr, ci, isDefer, VBool{c.Not(locked)})
			}
			// fork: success holds the lock (lockset is concrete control state)
			q := p.fork(m, locked)
			qfr := m.top(q.cfg)
			m.done(q, qfr, ci, isDefer, VBool{c.F})
			*work = append(*work, q)
			p.g = c.And(p.g, c.Not(locked))
			m.memSet(p, a, VBool{c.T})
			m.lockAdd(p, a)
			return true, m.done(p, fr, ci, isDefer, VBool{c.T})
		}
	case rp == "sync" && rt == "Once" && fn.Name() == "Do":
		a, ok := singleAddr(args[0])
		if !ok {
			panic(unsupported("sync.Once through symbolic pointer"))
		}
		done := m.memGet(p, a).(VBool).T
		m.record(p, a, true, false, ci)
		fs := args[1].(*VSet)
		if len(fs.Alts) != 1 {
			panic(unsupported("sync.Once.Do with symbolic function"))
		}
		cl := fs.Alts[0].C.(*Closure)
		if !done.IsFalse() {
			// already done: skip the call
			q := p.fork(m, done)
			qfr := m.top(q.cfg)
			m.done(q, qfr, ci, isDefer, nil)
			*work = append(*work, q)
			p.g = c.And(p.g, c.Not(done))
		}
		m.memSet(p, a, VBool{c.T})
		m.pushFrame(p, fr, cl.Fn, cl.Bindings, nil, nil, isDefer)
		return true, true
	case rp == "sync/atomic":
		s := args[0].(*VSet)
		t := m.elemType(fn.Signature.Recv().Type())
		base := fn.Name()
		if i := strings.Index(base, "["); i >= 0 {
			base = base[:i] // methods of instantiated generic types: Load[T]
		}
		switch base {
		case "Load":
			return true, m.done(p, fr, ci, isDefer, m.load(p, s, t, ci, false))
		case "Store":
			m.store(p, s, t, args[1], ci, false)
			return true, m.done(p, fr, ci, isDefer, nil)
		case "Swap":
			old := m.load(p, s, t, ci, false)
			m.store(p, s, t, args[1], ci, false)
			return true, m.done(p, fr, ci, isDefer, old)
		case "CompareAndSwap":
			old := m.load(p, s, t, ci, false)
			eq := m.eqValues(old, args[1])
			m.store(p, s, t, m.merge(eq, args[2], old), ci, false)
			return true, m.done(p, fr, ci, isDefer, VBool{eq})
		case "Add":
			old := m.load(p, s, t, ci, false).(VInt)
			nv := VInt{c.BinBV("bvadd", old.T, args[1].(VInt).T)}
			m.store(p, s, t, nv, ci, false)
			return true, m.done(p, fr, ci, isDefer, nv)
		}
		panic(unsupported("atomic method " + name))
	case pkg == "time" && fn.Name() == "AfterFunc":
		key := fmt.Sprintf("timer:%s@%d.%d%s", fr.ID, fr.Blk, fr.Idx, loopsSig(fr.Loops))
		a := m.alloc(key, timerObjType)
		m.memSet(p, a, VInt{c.BV(1, 8)}) // armed
		m.record(p, a, true, false, ci)
		found := false
		for _, t := range m.timers {
			if t == a {
				found = true
			}
		}
		if !found {
			m.timers = append(m.timers, a)
		}
		fs := args[1].(*VSet)
		if len(fs.Alts) != 1 {
			panic(unsupported("AfterFunc with symbolic callback"))
		}
		cl := fs.Alts[0].C.(*Closure)
		m.spawnGated(p, fr, ci, cl.Fn, cl.Bindings, nil, "timer", a)
		return true, m.done(p, fr, ci, isDefer, m.addrSet(a))
	case rp == "time" && rt == "Timer" && fn.Name() == "Stop":
		var stopped []*smt.Term
		for _, al := range args[0].(*VSet).Alts {
			a, ok := al.C.(Addr)
			if !ok {
				m.violate(p, "panic", "nil-timer", ci, al.G)
				continue
			}
			st := m.memGet(p, a).(VInt).T
			live := c.Or(c.Eq(st, c.BV(1, 8)), c.Eq(st, c.BV(2, 8)))
			m.memSet(p, a, VInt{c.Ite(c.And(al.G, live), c.BV(4, 8), st)})
			m.record(p, a, true, false, ci)
			stopped = append(stopped, c.And(al.G, live))
		}
		return true, m.done(p, fr, ci, isDefer, VBool{c.Or(stopped...)})
	case pkg == "context" && fn.Name() == "Background":
		a := m.alloc("ctx:background", ctxObjStruct)
		return true, m.done(p, fr, ci, isDefer, &VIface{Alts: []IAlt{{c.T, ctxObjType, m.addrSet(a)}}})
	case pkg == "context" && fn.Name() == "WithCancel":
		par := args[0].(*VIface)
		key := fmt.Sprintf("ctx:%s@%d.%d%s", fr.ID, fr.Blk, fr.Idx, loopsSig(fr.Loops))
		a := m.alloc(key, ctxObjStruct)
		var palts []Alt
		for _, al := range par.Alts {
			if al.Typ == nil {
				m.violate(p, "panic", "WithCancel(nil)", ci, al.G)
				p.g = c.And(p.g, c.Not(al.G))
				continue
			}
			for _, x := range al.Val.(*VSet).Alts {
				palts = append(palts, Alt{c.And(al.G, x.G), x.C})
			}
		}
		m.memSet(p, a, VBool{c.F})
		m.memSet(p, a+1, m.normSet(palts))
		cancel := m.mkClosure(key+"!cancel", nil, nil)
		cancel.Intr, cancel.A = "cancel", a
		res := VTuple{&VIface{Alts: []IAlt{{c.T, ctxObjType, m.addrSet(a)}}}, m.closSet(cancel)}
		return true, m.done(p, fr, ci, isDefer, res)
	case strings.HasSuffix(pkg, "/vrt"):
		return true, m.vrt(p, fr, ci, fn.Name(), args, isDefer, work)
	case pkg == "strings" && fn.Name() == "Join":
		return true, m.done(p, fr, ci, isDefer, m.strJoin(p, ci, args[0].(VSlice), args[1].(VStr)))
	case pkg == "errors" && fn.Name() == "New", pkg == "github.com/pkg/errors":
		key := fmt.Sprintf("err:%s@%d.%d%s", fr.ID, fr.Blk, fr.Idx, loopsSig(fr.Loops))
		obj := m.alloc(key, types.Typ[types.Int])
		return true, m.done(p, fr, ci, isDefer, &VIface{Alts: []IAlt{{c.T, m.opaqueErrType(), m.addrSet(obj)}}})
	}
	_ = cc
	return false, false
}

// intrClosure executes an intrinsic closure (context cancel func).
func (m *M) intrClosure(p *path, fr *Frame, ci ssa.CallInstruction, cl *Closure, isDefer bool) bool {
	switch cl.Intr {
	case "cancel":
		m.memSet(p, cl.A, VBool{m.c.T})
		m.record(p, cl.A, true, false, ci)
		if _, isGo := ci.(*ssa.Go); isGo {
			fr.Idx++
			return true
		}
		return m.done(p, fr, ci, isDefer, nil)
	}
	panic("unknown intrinsic closure")
}

func (m *M) canceledSentinel(p *path) Value {
	pk := m.prog.ImportedPackage("context")
	g := pk.Var("Canceled")
	a := m.globalAddr(g)
	return m.memGet(p, a)
}

func (m *M) ctxMethod(p *path, fr *Frame, ci ssa.CallInstruction, name string, recv *VIface, isDefer bool) bool {
	c := m.c
	var addrs []Alt
	for _, al := range recv.Alts {
		if al.Typ == nil {
			m.violate(p, "panic", "nil-context-call", ci, al.G)
			p.g = c.And(p.g, c.Not(al.G))
			continue
		}
		for _, x := range al.Val.(*VSet).Alts {
			addrs = append(addrs, Alt{c.And(al.G, x.G), x.C})
		}
	}
	switch name {
	case "Done":
		var alts []Alt
		for _, al := range addrs {
			alts = append(alts, Alt{al.G, DoneChan{al.C.(Addr)}})
		}
		return m.done(p, fr, ci, isDefer, m.normSet(alts))
	case "Err":
		var canc []*smt.Term
		for _, al := range addrs {
			a := al.C.(Addr)
			m.record(p, a, false, false, ci)
			canc = append(canc, c.And(al.G, m.ctxCancelled(p, a, 0)))
		}
		isC := c.Or(canc...)
		res := m.merge(isC, m.canceledSentinel(p), m.zero(ci.Value().Type()))
		return m.done(p, fr, ci, isDefer, res)
	}
	panic(unsupported("context method " + name))
}

func (m *M) vrt(p *path, fr *Frame, ci ssa.CallInstruction, name string, args []Value, isDefer bool, work *[]*path) bool {
	c := m.c
	cc := ci.Common()
	site := fmt.Sprintf("%s@%d.%d%s", fr.ID, fr.Blk, fr.Idx, loopsSig(fr.Loops))
	switch name {
	case "Bool":
		if fv, ok := m.Fix[constString(cc.Args[0])]; ok {
			return m.done(p, fr, ci, isDefer, VBool{c.Bool(fv != 0)})
		}
		key := "nd!" + constString(cc.Args[0]) + "!" + site
		v := c.Var(key, 0)
		m.Nondet[key] = v
		return m.done(p, fr, ci, isDefer, VBool{v})
	case "Int":
		if fv, ok := m.Fix[constString(cc.Args[0])]; ok {
			// case split: this run decides one concrete value of the input
			return m.done(p, fr, ci, isDefer, VInt{c.BV(fv, 64)})
		}
		key := "nd!" + constString(cc.Args[0]) + "!" + site
		v := c.Var(key, 64)
		m.Nondet[key] = v
		lo, hi := args[1].(VInt).T, args[2].(VInt).T
		m.Assumes = append(m.Assumes, c.Implies(p.g, c.And(c.Cmp("bvsle", lo, v), c.Cmp("bvsle", v, hi))))
		return m.done(p, fr, ci, isDefer, VInt{v})
	case "Bytes":
		name := constString(cc.Args[0])
		maxLen, _ := constInt(args[1].(VInt))
		maxCap, _ := constInt(args[2].(VInt))
		key := "nd!" + name + "!" + site
		a := m.allocArray("bytes:"+key, types.Typ[types.Byte], int(maxCap))
		for i := 0; i < int(maxCap); i++ {
			bk := fmt.Sprintf("%s[%d]", key, i)
			v := c.Var(bk, 8)
			m.Nondet[bk] = v
			m.memSet(p, a+Addr(i), VInt{v})
		}
		ln, cp := c.Var(key+".len", 64), c.Var(key+".cap", 64)
		m.Nondet[key+".len"], m.Nondet[key+".cap"] = ln, cp
		if v, ok := m.Fix[name+".len"]; ok {
			ln = c.BV(v, 64) // case split: this run decides one concrete length
		}
		if v, ok := m.Fix[name+".cap"]; ok {
			cp = c.BV(v, 64)
		}
		m.Assumes = append(m.Assumes, c.And(
			c.Cmp("bvule", ln, c.BV(maxLen, 64)), c.Cmp("bvule", ln, cp), c.Cmp("bvule", cp, c.BV(maxCap, 64))))
		return m.done(p, fr, ci, isDefer, VSlice{m.addrSet(a), VInt{ln}, VInt{cp}})
	case "String":
		name := constString(cc.Args[0])
		maxLen, _ := constInt(args[1].(VInt))
		key := "nd!" + name + "!" + site
		out := VStr{}
		for i := 0; i < int(maxLen); i++ {
			bk := fmt.Sprintf("%s[%d]", key, i)
			v := c.Var(bk, 8)
			m.Nondet[bk] = v
			out.B = append(out.B, v)
		}
		if v, ok := m.Fix[name+".len"]; ok {
			out.Len = c.BV(v, 64)
			if int(v) < len(out.B) {
				out.B = out.B[:v]
			}
		} else {
			ln := c.Var(key+".len", 64)
			m.Nondet[key+".len"] = ln
			m.Assumes = append(m.Assumes, c.Cmp("bvule", ln, c.BV(maxLen, 64)))
			out.Len = ln
		}
		return m.done(p, fr, ci, isDefer, out)
	case "Assume":
		m.Assumes = append(m.Assumes, c.Implies(p.g, args[0].(VBool).T))
		return m.done(p, fr, ci, isDefer, nil)
	case "Assert":
		m.violate(p, "assert", constString(cc.Args[1]), ci, c.Not(args[0].(VBool).T))
		return m.done(p, fr, ci, isDefer, nil)
	case "Cover":
		id := constString(cc.Args[0])
		old := m.Covers[id]
		if old == nil {
			old = c.F
		}
		m.Covers[id] = c.Or(old, p.g)
		return m.done(p, fr, ci, isDefer, nil)
	case "Go":
		fs := args[1].(*VSet)
		if len(fs.Alts) != 1 {
			panic(unsupported("vrt.Go with symbolic function"))
		}
		cl := fs.Alts[0].C.(*Closure)
		if cl.Intr != "" {
			// a thread that just runs the intrinsic closure: model as a one-step thread
			m.spawnIntr(p, fr, ci, cl, constString(cc.Args[0]))
		} else {
			m.spawn(p, fr, ci, cl.Fn, cl.Bindings, nil, constString(cc.Args[0]))
		}
		return m.done(p, fr, ci, isDefer, nil)
	case "Advance":
		m.advanced = true
		for _, a := range m.timers {
			st := m.memGet(p, a).(VInt).T
			m.memSet(p, a, VInt{c.Ite(c.Eq(st, c.BV(1, 8)), c.BV(2, 8), st)})
			m.record(p, a, true, false, ci)
		}
		return m.done(p, fr, ci, isDefer, nil)
	case "CancelAnytime":
		if len(args[0].(*VSet).Alts) != 1 {
			panic(unsupported("vrt.CancelAnytime with a merged function value"))
		}
		cl := args[0].(*VSet).Alts[0].C.(*Closure)
		if cl.Intr != "cancel" {
			panic(unsupported("CancelAnytime of a non-cancel function"))
		}
		m.memSet(p, cl.A+2, VBool{c.T})
		if _, ok := m.EnvOwner[cl.A]; !ok {
			n := 0
			for _, o := range m.EnvOwner {
				if o[0] == p.cfg.Th {
					n++
				}
			}
			m.EnvOwner[cl.A] = [2]int{p.cfg.Th, n}
		}
		return m.done(p, fr, ci, isDefer, nil)
	case "AtQuiescence":
		if len(args[0].(*VSet).Alts) != 1 {
			panic(unsupported("vrt.AtQuiescence with a merged function value"))
		}
		cl := args[0].(*VSet).Alts[0].C.(*Closure)
		m.spawnGated(p, fr, ci, cl.Fn, cl.Bindings, nil, "monitor", -1)
		return m.done(p, fr, ci, isDefer, nil)
	case "Park":
		p.cfg.Status = stParked
		return false
	case "Ghost", "Atomic":
		if len(args[0].(*VSet).Alts) != 1 {
			panic(unsupported("vrt.Atomic with a merged function value"))
		}
		cl := args[0].(*VSet).Alts[0].C.(*Closure)
		m.pushFrame(p, fr, cl.Fn, cl.Bindings, nil, nil, isDefer)
		m.top(p.cfg).Ghost = true
		p.ghost++
		return true
	}
	panic(unsupported("vrt." + name))
}

// spawnIntr spawns a thread whose whole body is one intrinsic closure call (e.g. a canceller).
func (m *M) spawnIntr(p *path, fr *Frame, ci ssa.Instruction, cl *Closure, name string) {
	// find the wrapper function vrt.callFunc in the program: func callFunc(f func()) { f() }
	var wrapper *ssa.Function
	for _, pk := range m.prog.AllPackages() {
		if strings.HasSuffix(pk.Pkg.Path(), "/vrt") {
			wrapper = pk.Func("CallFunc")
		}
	}
	if wrapper == nil {
		panic(unsupported("vrt.CallFunc wrapper missing"))
	}
	m.spawn(p, fr, ci, wrapper, nil, []Value{m.closSet(cl)}, name)
}

var timerObjType = types.NewStruct([]*types.Var{
	types.NewVar(0, nil, "state", types.Typ[types.Uint8]),
}, nil)
