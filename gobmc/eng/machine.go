package eng

import (
	"fmt"
	"go/token"
	"go/types"
	"sort"
	"strings"
	"sync"

	"gobmc/smt"

	"golang.org/x/tools/go/ssa"
)

type regKey struct {
	frame string
	v     interface{}
}

type DeferRec struct {
	Instr *ssa.Defer
	Seq   int
}

type Frame struct {
	Fn       *ssa.Function
	ID       string
	Blk, Idx int
	Loops    map[int]int
	Defers   []DeferRec
	NDefer   int
	CallSite ssa.Value // register in the parent that receives the result (nil: none)
	Bind     []Value
	IsDefer  bool // frame of a deferred call: on return re-run RunDefers of parent
	Ghost    bool
}

const (
	stRun = iota
	stStart
	stDone
	stPanic
	stParked
)

type Config struct {
	Th     int
	Frames []*Frame
	Locks  []Addr
	Status int
	G      *smt.Term
	// Gate: a thread that may only start when a condition holds: >0 = address of a timer object
	// (start when expired), -1 = quiescence monitor
	Gate Addr
	// Spawned: this thread has started another thread (control state; only used for thread 0,
	// whose accesses before its first spawn are initialisation and cannot race)
	Spawned bool
	// NSpawn: number of threads this thread has spawned so far (control state; orders this
	// thread's earlier accesses before everything its later children do)
	NSpawn int
	// SpawnMask: the set of threads (bit per thread id, ids < 64) this thread has spawned so far
	SpawnMask uint64
}

func (f *Frame) clone() *Frame {
	n := *f
	n.Loops = map[int]int{}
	for k, v := range f.Loops {
		n.Loops[k] = v
	}
	n.Defers = append([]DeferRec(nil), f.Defers...)
	return &n
}

func (c *Config) clone() *Config {
	n := &Config{Th: c.Th, Status: c.Status, G: c.G, Spawned: c.Spawned, Gate: c.Gate, NSpawn: c.NSpawn, SpawnMask: c.SpawnMask}
	for _, f := range c.Frames {
		n.Frames = append(n.Frames, f.clone())
	}
	n.Locks = append([]Addr(nil), c.Locks...)
	return n
}

func loopsSig(l map[int]int) string {
	if len(l) == 0 {
		return ""
	}
	var ks []int
	for k := range l {
		ks = append(ks, k)
	}
	sort.Ints(ks)
	var sb strings.Builder
	for _, k := range ks {
		fmt.Fprintf(&sb, "~%d:%d", k, l[k])
	}
	return sb.String()
}

func (c *Config) key() string {
	var sb strings.Builder
	fmt.Fprintf(&sb, "T%d S%d n%x ", c.Th, c.Status, c.SpawnMask)
	if len(c.Frames) > 0 {
		f := c.Frames[len(c.Frames)-1]
		fmt.Fprintf(&sb, "%s@%d.%d%s", f.ID, f.Blk, f.Idx, loopsSig(f.Loops))
	}
	for _, f := range c.Frames {
		if len(f.Defers) > 0 {
			fmt.Fprintf(&sb, " D%s:", f.ID)
			for _, d := range f.Defers {
				fmt.Fprintf(&sb, "%p.%d,", d.Instr, d.Seq)
			}
		}
	}
	fmt.Fprintf(&sb, " L%v", c.Locks)
	return sb.String()
}

type Ov struct {
	regs map[regKey]Value
	mem  map[Addr]Value
}

func newOv() *Ov { return &Ov{regs: map[regKey]Value{}, mem: map[Addr]Value{}} }
func (o *Ov) clone() *Ov {
	n := newOv()
	for k, v := range o.regs {
		n.regs[k] = v
	}
	for k, v := range o.mem {
		n.mem[k] = v
	}
	return n
}

type path struct {
	cfg    *Config
	g      *smt.Term
	ov     *Ov
	first  bool
	spawns []*Config // children spawned in this macro-step whose prefix has not run yet
	carry  []*Config // configs of other threads already parked in this joint macro-step
	ghost  int
	probe  bool // evaluating enabledness only: no side effects
	// base: the register snapshot of the configuration that was fired (read-only)
	base map[regKey]Value
}

func (p *path) fork(m *M, g *smt.Term) *path {
	n := &path{cfg: p.cfg.clone(), g: m.c.And(p.g, g), ov: p.ov.clone(), first: p.first, ghost: p.ghost, base: p.base}
	n.spawns = append([]*Config(nil), p.spawns...)
	n.carry = append([]*Config(nil), p.carry...)
	return n
}

type Violation struct {
	Kind string // assert | panic | stuck | unwind
	ID   string
	Pos  string
	G    *smt.Term
}

// thrAcc summarises the accesses of one thread to one cell.
type thrAcc struct {
	write     bool
	maxSpawn  int    // largest number of children the thread had spawned at an access
	spawned   uint64 // union over the accesses of the children already spawned at the access
	spawnedW  uint64 // the same over the writes only
	maxSpawnW int
	overflow  bool // a child with id >= 64 was spawned before an access
}

type accInfo struct {
	per       map[int]*thrAcc
	threads   map[int]bool
	write     bool
	plain     bool
	lockset   map[Addr]bool // intersection; nil = not yet initialised
	lockInit  bool
	positions map[string]bool
}

// FireRec describes one potential firing (for decoding models into traces).
type FireRec struct {
	P    token.Pos
	Step int
	Th   int
	Name string
	Pos  string
	Op   string
	G    *smt.Term
	// Deferred: the pending operation is a deferred call (P is the position of the defer statement)
	Deferred bool
	Fn       string // function containing the pending operation
	// SelKey: the pending operation is a blocking select; name of its choice variable
	SelKey string
}

// EnvRec: the environment cancels context Ctx at step Step (when G holds in the model).
type EnvRec struct {
	Step int
	Ctx  Addr
	G    *smt.Term
}

type Thread struct {
	Key    string
	Name   string
	Parent int
	Site   string
	// ChildIdx: how many threads the parent had spawned before this one (minimum over paths)
	ChildIdx int
}

type M struct {
	c    *smt.Ctx
	prog *ssa.Program

	// snap: per control configuration, the values of the registers that are live there
	// (registers are not shared between configurations, so values of different loop iterations
	// or call paths are never merged)
	snap  map[string]map[regKey]Value
	mem   map[Addr]Value
	leafT map[Addr]types.Type

	nextAddr Addr
	allocTab map[string]Addr
	globTab  map[*ssa.Global]Addr

	threads []*Thread
	thrTab  map[string]int
	live    []map[string]*Config

	shared     map[Addr]bool   // per-round view (addresses are re-assigned each round)
	sharedName map[string]bool // stable across rounds: allocation key + leaf offset
	tryMutex   map[string]bool // mutexes (by allocation name) on which TryLock is called: their Unlock is visible
	tryGrew    bool
	blockKey   map[Addr]string
	acc        map[Addr]*accInfo

	Viol    []Violation
	Covers  map[string]*smt.Term
	Assumes []*smt.Term
	Sched   []*smt.Term
	Nondet  map[string]*smt.Term

	U, K             int
	closID           int
	closTab          map[string]*Closure
	liveTab          map[*ssa.Function]*liveInfo
	rpoTab           map[*ssa.Function][]int
	arrLen           map[Addr]int
	mapTab           map[Addr]*mapInfo
	iterTab          map[Addr]*VSet
	MapCap           int
	MaxSlice         int
	RaceCheck        bool
	curStep          int
	Pruner           *Pruner
	Pruners          []*Pruner // additional sessions: new configurations of a step are checked in parallel
	seenCfg          map[string]bool
	AppendCap        int
	timers           []Addr
	Fix              map[string]int64 // case-split values for named harness inputs
	blocks           map[Addr]int     // allocation base -> number of leaves
	blockOf          map[Addr]Addr    // leaf -> allocation base
	published        map[Addr]bool    // cells reachable from a spawned thread's arguments (heuristic seed)
	Round            int
	loops            map[*ssa.Function]map[int]map[int]bool // fn -> header -> body set
	sentinels        map[string]*VIface
	ctxType, errType types.Type

	Stats     struct{ Firings, Cfgs, MaxLive int }
	chanElem  map[Addr]types.Type
	chanMulti map[Addr]bool
	advanced  bool // vrt.Advance has been executed on some path: timers may be expired from now on
	EnvLog    []EnvRec
	EnvOwner  map[Addr][2]int // context object -> (thread, occurrence) of the vrt.CancelAnytime call that armed it
	// MaxPreempt >= 0 bounds the number of preemptions (switching away from a thread that could
	// still move) in the schedules considered; -1 = unbounded
	MaxPreempt int
	preCnt     *smt.Term // running preemption count (8 bit)
	prevCk     *smt.Term
	Hinted     bool            // the shared set was seeded from a hint file: no round-0 guessing
	Single     bool            // the previous round saw one thread only: lock operations are invisible
	MaxTerms   int             // cap on the number of terms (0 = none)
	funcFile   map[string]bool // source files of those functions
	funcs      map[string]bool // functions entered by the interpreter in the final round
	stubs      map[string]bool // environment models exercised
	cfgSeen    map[string]bool // distinct (thread, control configuration) keys encoded
	FireLog    []FireRec
	FinalLog   []FireRec // where each unfinished thread is parked after the last step
	Trace      bool
	Verbose    bool
}

func NewM(prog *ssa.Program, U, K int) *M {
	m := &M{c: smt.New(), prog: prog, U: U, K: K}
	m.shared = map[Addr]bool{}
	m.sharedName = map[string]bool{}
	m.tryMutex = map[string]bool{}
	m.reset()
	return m
}

func (m *M) reset() {
	m.c = smt.New()
	m.snap = map[string]map[regKey]Value{}
	m.mem = map[Addr]Value{}
	m.leafT = map[Addr]types.Type{}
	m.nextAddr = 16
	m.allocTab = map[string]Addr{}
	m.globTab = map[*ssa.Global]Addr{}
	m.threads = nil
	m.thrTab = map[string]int{}
	m.live = nil
	m.acc = map[Addr]*accInfo{}
	m.Viol = nil
	m.Covers = map[string]*smt.Term{}
	m.Assumes = nil
	m.Sched = nil
	m.Nondet = map[string]*smt.Term{}
	m.closID = 0
	m.closTab = map[string]*Closure{}
	m.arrLen = map[Addr]int{}
	m.seenCfg = map[string]bool{}
	m.timers = nil
	m.mapTab = map[Addr]*mapInfo{}
	m.iterTab = map[Addr]*VSet{}
	if m.MapCap == 0 {
		m.MapCap = 3
	}
	if m.AppendCap == 0 {
		m.AppendCap = 4
	}
	if m.MaxSlice == 0 {
		m.MaxSlice = 96
	}
	m.blocks = map[Addr]int{}
	m.blockKey = map[Addr]string{}
	m.shared = map[Addr]bool{}
	m.blockOf = map[Addr]Addr{}
	if m.published == nil {
		m.published = map[Addr]bool{}
	}
	if m.rpoTab == nil {
		m.rpoTab = map[*ssa.Function][]int{}
	}
	if m.liveTab == nil {
		m.liveTab = map[*ssa.Function]*liveInfo{}
	}
	m.loops = map[*ssa.Function]map[int]map[int]bool{}
	m.sentinels = map[string]*VIface{}
	m.Stats.Firings, m.Stats.Cfgs, m.Stats.MaxLive = 0, 0, 0
	m.FireLog = nil
	m.FinalLog = nil
	m.advanced = false
	m.EnvOwner = map[Addr][2]int{}
	m.chanElem = map[Addr]types.Type{}
	m.chanMulti = map[Addr]bool{}
	m.EnvLog = nil
	m.preCnt = nil
	m.prevCk = nil
	m.funcs = map[string]bool{}
	m.funcFile = map[string]bool{}
	m.stubs = map[string]bool{}
	m.cfgSeen = map[string]bool{}
}

func (m *M) Ctx() *smt.Ctx { return m.c }

// alloc returns the address for allocation key, reserving leaves for t.
func (m *M) alloc(key string, t types.Type) Addr {
	lt := leafTypes(t)
	if a, ok := m.allocTab[key]; ok {
		if m.blocks[a] != len(lt) {
			panic(unsupported(fmt.Sprintf("allocation %q re-executed with a different size (%d vs %d leaves)", key, m.blocks[a], len(lt))))
		}
		return a
	}
	a := m.nextAddr
	for i, l := range lt {
		m.leafT[a+Addr(i)] = l
		m.blockOf[a+Addr(i)] = a
	}
	m.blocks[a] = len(lt)
	m.blockKey[a] = key
	for i := range lt {
		if m.sharedName[fmt.Sprintf("%s+%d", key, i)] {
			m.shared[a+Addr(i)] = true
		}
	}
	m.nextAddr += Addr(len(lt))
	m.allocTab[key] = a
	return a
}

func (m *M) newThread(key, name string) int {
	if id, ok := m.thrTab[key]; ok {
		return id
	}
	id := len(m.threads)
	m.threads = append(m.threads, &Thread{Key: key, Name: name, Parent: -1, ChildIdx: 1 << 30})
	m.thrTab[key] = id
	m.live = append(m.live, map[string]*Config{})
	return id
}

func (m *M) pos(instr ssa.Instruction) string {
	p := instr.Pos()
	if p == token.NoPos {
		// fall back to the enclosing function
		if instr.Parent() != nil {
			return instr.Parent().String()
		}
		return "?"
	}
	ps := m.prog.Fset.Position(p)
	return fmt.Sprintf("%s:%d", ps.Filename, ps.Line)
}

// natural loops of fn: header -> set of body blocks
func (m *M) loopInfo(fn *ssa.Function) map[int]map[int]bool {
	if li, ok := m.loops[fn]; ok {
		return li
	}
	li := map[int]map[int]bool{}
	for _, b := range fn.Blocks {
		for _, s := range b.Succs {
			if s.Dominates(b) { // back edge b -> s
				body := li[s.Index]
				if body == nil {
					body = map[int]bool{s.Index: true}
					li[s.Index] = body
				}
				// nodes reaching b without passing s
				stack := []*ssa.BasicBlock{b}
				for len(stack) > 0 {
					x := stack[len(stack)-1]
					stack = stack[:len(stack)-1]
					if body[x.Index] {
						continue
					}
					body[x.Index] = true
					for _, p := range x.Preds {
						stack = append(stack, p)
					}
				}
			}
		}
	}
	m.loops[fn] = li
	return li
}

// Run unrolls the harness for K steps.
func (m *M) Run(entry *ssa.Function) error {
	t0 := m.newThread("main", "main")
	fr := &Frame{Fn: entry, ID: "T0:" + entry.Name(), Loops: map[int]int{}}
	m.noteFunc(entry)
	cfg := &Config{Th: t0, Frames: []*Frame{fr}, Status: stStart, G: m.c.T}
	m.live[t0][cfg.key()] = cfg
	for k := 0; k < m.K; k++ {
		if err := m.step(k); err != nil {
			return err
		}
	}
	m.final()
	return nil
}

type result struct {
	cfgs []*Config
	g    *smt.Term
	ov   *Ov
}

func (m *M) step(k int) (err error) {
	defer func() {
		if r := recover(); r != nil {
			if e, ok := r.(unsupported); ok {
				err = fmt.Errorf("unsupported: %s", string(e))
				return
			}
			panic(r)
		}
	}()
	m.curStep = k
	if m.MaxTerms > 0 && m.c.NumTerms() > m.MaxTerms {
		return fmt.Errorf("unroller cap: %d terms exceed the limit of %d at step %d", m.c.NumTerms(), m.MaxTerms, k)
	}
	ck := m.c.Var(fmt.Sprintf("c_%d", k), 8)
	m.Sched = append(m.Sched, ck)
	var results []*result
	var fires, enabledAny []*smt.Term
	enT := map[int][]*smt.Term{} // per thread: enabled configurations
	var monitors []*Config
	next := make([]map[string]*Config, len(m.live))
	addNext := func(cfg *Config, g *smt.Term) {
		if g.IsFalse() {
			return
		}
		for len(next) <= cfg.Th {
			next = append(next, nil)
		}
		if next[cfg.Th] == nil {
			next[cfg.Th] = map[string]*Config{}
		}
		key := cfg.key()
		if old, ok := next[cfg.Th][key]; ok {
			old.G = m.c.Or(old.G, g)
		} else {
			n := cfg.clone()
			n.G = g
			next[cfg.Th][key] = n
		}
	}
	nth := len(m.live)
	nlive := 0
	// if only one thread has anything left to do, the scheduler has no choice: its firing does
	// not depend on c_k (keeps sequential harnesses and sequential prefixes free of schedule terms)
	sole := -1
	for t := 0; t < nth; t++ {
		for _, cfg := range m.live[t] {
			if cfg.Status == stDone || cfg.Status == stPanic || cfg.Status == stParked || (cfg.Status == stStart && cfg.Gate == -1) {
				continue
			}
			if cfg.Status == stStart && cfg.Gate > 0 && !m.advanced {
				continue // a timer callback cannot start before the first vrt.Advance
			}
			if sole == -1 || sole == t {
				sole = t
			} else {
				sole = -2
			}
		}
	}
	for t := 0; t < nth; t++ {
		keys := make([]string, 0, len(m.live[t]))
		for key := range m.live[t] {
			keys = append(keys, key)
		}
		sort.Strings(keys)
		for _, key := range keys {
			cfg := m.live[t][key]
			nlive++
			m.cfgSeen[key] = true
			if cfg.Status == stDone || cfg.Status == stPanic || cfg.Status == stParked {
				addNext(cfg, cfg.G)
				continue
			}
			if cfg.Status == stStart && cfg.Gate == -1 {
				monitors = append(monitors, cfg)
				continue
			}
			en := m.enabled(cfg)
			sel := m.c.Eq(ck, m.c.BV(int64(t), 8))
			if sole == t {
				sel = m.c.T
			}
			fire := m.c.And(cfg.G, sel, en)
			addNext(cfg, m.c.And(cfg.G, m.c.Not(m.c.And(sel, en))))
			enabledAny = append(enabledAny, m.c.And(cfg.G, en))
			enT[t] = append(enT[t], m.c.And(cfg.G, en))
			if fire.IsFalse() {
				continue
			}
			fires = append(fires, fire)
			m.Stats.Firings++
			{
				pos, op := "start", "start"
				var tp token.Pos
				isDef := false
				if cfg.Status == stRun {
					in := m.curInstr(cfg)
					pos, op, tp = m.pos(in), in.String(), in.Pos()
					if _, ok := in.(*ssa.RunDefers); ok {
						if fr := m.top(cfg); len(fr.Defers) > 0 {
							d := fr.Defers[len(fr.Defers)-1].Instr
							tp, isDef = d.Pos(), true
							pos, op = m.pos(d), "deferred "+d.Common().String()
						}
					}
				}
				selKey := ""
				if cfg.Status == stRun {
					if sx, ok := m.curInstr(cfg).(*ssa.Select); ok && sx.Blocking {
						fr := m.top(cfg)
						selKey = fmt.Sprintf("sel!%s@%d.%d%s", fr.ID, fr.Blk, fr.Idx, loopsSig(fr.Loops))
					}
				}
				m.FireLog = append(m.FireLog, FireRec{P: tp, Step: k, Th: t, Name: m.threads[t].Name, Pos: pos, Op: op, G: fire, Deferred: isDef, SelKey: selKey})
			}
			p := &path{cfg: cfg.clone(), g: fire, ov: newOv(), first: true, base: m.snap[key]}
			t0n, r0n := m.c.NumTerms(), len(results)
			npaths := m.runMacro(p, &results)
			if m.Verbose && m.c.NumTerms()-t0n > 20000 {
				fmt.Printf("  step %d heavy firing: +%d terms, %d paths, %d results: %s\n", k, m.c.NumTerms()-t0n, npaths, len(results)-r0n, key)
			}
		}
	}
	// race class (C13): two threads parked at conflicting plain accesses to the same cell
	if m.RaceCheck {
		type pend struct {
			th    int
			g     *smt.Term
			ptr   *VSet
			write bool
			pos   string
		}
		var ps []pend
		for t := 0; t < nth; t++ {
			for _, cfg := range m.live[t] {
				if cfg.Status != stRun {
					continue
				}
				fr := m.top(cfg)
				in := m.curInstr(cfg)
				pp := &path{cfg: cfg, g: m.c.T, ov: newOv(), probe: true, base: m.snap[cfg.key()]}
				switch x := in.(type) {
				case *ssa.Store:
					if s, ok := m.get(pp, fr, x.Addr).(*VSet); ok {
						ps = append(ps, pend{t, cfg.G, s, true, m.pos(in)})
					}
				case *ssa.UnOp:
					if x.Op == token.MUL {
						if s, ok := m.get(pp, fr, x.X).(*VSet); ok {
							ps = append(ps, pend{t, cfg.G, s, false, m.pos(in)})
						}
					}
				}
			}
		}
		for i := 0; i < len(ps); i++ {
			for j := i + 1; j < len(ps); j++ {
				a, b := ps[i], ps[j]
				if a.th == b.th || !(a.write || b.write) {
					continue
				}
				if !strings.Contains(a.pos, "/repo/") && !strings.Contains(b.pos, "/repo/") {
					continue // both in harness code
				}
				same := m.eqSets(a.ptr, b.ptr)
				g := m.c.And(a.g, b.g, same)
				if g.IsFalse() {
					continue
				}
				p1, p2 := a.pos, b.pos
				if p2 < p1 {
					p1, p2 = p2, p1
				}
				m.Viol = append(m.Viol, Violation{Kind: "race", ID: "data-race", Pos: p1 + " <-> " + p2, G: g})
			}
		}
	}
	// quiescence monitors: enabled only when no ordinary thread is
	if len(monitors) > 0 {
		qn := m.c.Not(m.c.Or(enabledAny...))
		for _, cfg := range monitors {
			t := cfg.Th
			sel := m.c.Eq(ck, m.c.BV(int64(t), 8))
			fire := m.c.And(cfg.G, sel, qn)
			addNext(cfg, m.c.And(cfg.G, m.c.Not(m.c.And(sel, qn))))
			enabledAny = append(enabledAny, m.c.And(cfg.G, qn))
			if fire.IsFalse() {
				continue
			}
			fires = append(fires, fire)
			m.Stats.Firings++
			m.FireLog = append(m.FireLog, FireRec{Step: k, Th: t, Name: m.threads[t].Name, Pos: "start", Op: "start(quiescence)", G: fire})
			p := &path{cfg: cfg.clone(), g: fire, ov: newOv(), first: true, base: m.snap[cfg.key()]}
			m.runMacro(p, &results)
		}
	}
	if nlive > m.Stats.MaxLive {
		m.Stats.MaxLive = nlive
	}
	m.Stats.Cfgs += nlive
	if m.Verbose {
		fmt.Printf("step %d: live=%d firings=%d terms=%d\n", k, nlive, len(fires), m.c.NumTerms())
	}
	quiescent := m.c.Not(m.c.Or(enabledAny...))
	if m.MaxPreempt >= 0 && sole < 0 {
		// preemption at this step: the thread of the previous step could still move, and
		// another thread is scheduled
		if m.preCnt == nil {
			m.preCnt = m.c.BV(0, 8)
		}
		if m.prevCk != nil {
			var ps []*smt.Term
			for t, ens := range enT {
				tt := m.c.BV(int64(t), 8)
				ps = append(ps, m.c.And(m.c.Eq(m.prevCk, tt), m.c.Not(m.c.Eq(ck, tt)), m.c.Or(ens...)))
			}
			pre := m.c.And(m.c.Or(ps...), m.c.Not(quiescent))
			m.preCnt = m.c.BinBV("bvadd", m.preCnt, m.c.Ite(pre, m.c.BV(1, 8), m.c.BV(0, 8)))
			m.Assumes = append(m.Assumes, m.c.Cmp("bvule", m.preCnt, m.c.BV(int64(m.MaxPreempt), 8)))
		}
	}
	if sole >= 0 {
		m.prevCk = m.c.BV(int64(sole), 8)
	} else {
		m.prevCk = ck
	}
	m.Assumes = append(m.Assumes, m.c.Or(quiescent, m.c.Or(fires...)))
	m.Assumes = append(m.Assumes, m.c.Implies(quiescent, m.c.Eq(ck, m.c.BV(0, 8))))

	// merge results that park the same set of configurations
	{
		idx := map[string]*result{}
		var merged []*result
		for _, r := range results {
			var sb strings.Builder
			for _, cf := range r.cfgs {
				sb.WriteString(cf.key() + "|")
			}
			k := sb.String()
			if old, ok := idx[k]; ok {
				a := &path{g: old.g, ov: old.ov} // results carry all their live registers: no base
				m.mergePaths(a, &path{g: r.g, ov: r.ov})
				old.g = a.g
			} else {
				idx[k] = r
				merged = append(merged, r)
			}
		}
		results = merged
	}
	// fold results
	nBeforeFold := m.c.NumTerms()
	type gv struct {
		g *smt.Term
		v Value
	}
	pendM := map[Addr][]gv{}
	var mkeys []Addr
	// next snapshots: a configuration that stays live keeps its registers; every result adds
	// (under its guard) the registers of the configurations it parks
	nextSnap := map[string]map[regKey]Value{}
	for t := range next {
		for key := range next[t] {
			if old, ok := m.snap[key]; ok {
				nextSnap[key] = old
			}
		}
	}
	owned := map[string]bool{} // snapshots already copied in this step (copy on write)
	nregs := 0
	for _, r := range results {
		for _, cf := range r.cfgs {
			addNext(cf, r.g)
		}
		for _, cf := range r.cfgs {
			key := cf.key()
			frames := map[string]bool{}
			for _, f := range cf.Frames {
				frames[f.ID] = true
			}
			dst := nextSnap[key]
			if !owned[key] {
				cp := make(map[regKey]Value, len(dst)+8)
				for k, v := range dst {
					cp[k] = v
				}
				dst = cp
				nextSnap[key] = dst
				owned[key] = true
			}
			for rk, v := range r.ov.regs {
				if !frames[frameBase(rk.frame)] {
					continue
				}
				nregs++
				if old, ok := dst[rk]; ok && !sameValue(old, v) {
					if !m.compatible(v, old) {
						dst[rk] = v
					} else {
						dst[rk] = m.merge(r.g, v, old)
					}
				} else {
					dst[rk] = v
				}
			}
		}
		for a, v := range r.ov.mem {
			if _, ok := pendM[a]; !ok {
				mkeys = append(mkeys, a)
			}
			pendM[a] = append(pendM[a], gv{r.g, v})
		}
	}
	// group identical values written by different paths (OR their guards) before chaining ites
	group := func(xs []gv) []gv {
		var out []gv
		for _, x := range xs {
			found := false
			for i := range out {
				if sameValue(out[i].v, x.v) {
					out[i].g = m.c.Or(out[i].g, x.g)
					found = true
					break
				}
			}
			if !found {
				out = append(out, x)
			}
		}
		return out
	}
	for _, a := range mkeys {
		cur := m.memGet(nil, a)
		for _, x := range group(pendM[a]) {
			cur = m.merge(x.g, x.v, cur)
		}
		m.mem[a] = cur
	}
	rkeys := make([]int, nregs)
	if m.Verbose {
		fmt.Printf("   fold: +%d terms (%d results, %d regs, %d cells)\n", m.c.NumTerms()-nBeforeFold, len(results), len(rkeys), len(mkeys))
	}
	// solver-assisted pruning: a configuration seen for the first time is kept only if its guard
	// is satisfiable under the assumptions so far (unsat => dropped; anything else => kept)
	if m.Pruner != nil {
		type cand struct {
			t   int
			key string
			g   *smt.Term
			ok  bool
		}
		var cands []*cand
		for t := range next {
			for key, cfg := range next[t] {
				if !m.seenCfg[key] {
					cands = append(cands, &cand{t: t, key: key, g: cfg.G})
				}
			}
		}
		sessions := append([]*Pruner{m.Pruner}, m.Pruners...)
		if len(cands) < 2*len(sessions) {
			sessions = sessions[:1]
		}
		var wg sync.WaitGroup
		for si, pr := range sessions {
			wg.Add(1)
			go func(si int, pr *Pruner) {
				defer wg.Done()
				for i := si; i < len(cands); i += len(sessions) {
					cands[i].ok = m.feasibleOn(pr, cands[i].g)
				}
			}(si, pr)
		}
		wg.Wait()
		for _, c := range cands {
			if c.ok {
				m.seenCfg[c.key] = true
			} else {
				delete(next[c.t], c.key)
			}
		}
	}
	// re-encode each thread's control state as an ite-chain program counter so that mutual
	// exclusion of configurations is structural
	for t := range next {
		if len(next[t]) < 2 {
			continue
		}
		var keys []string
		for key := range next[t] {
			keys = append(keys, key)
		}
		sort.Strings(keys)
		pc := m.c.BV(0, 12)
		for i := len(keys) - 1; i >= 0; i-- {
			pc = m.c.Ite(next[t][keys[i]].G, m.c.BV(int64(i+1), 12), pc)
		}
		for i, key := range keys {
			next[t][key].G = m.c.EqRaw(pc, m.c.BV(int64(i+1), 12))
		}
	}
	for len(m.live) < len(next) {
		m.live = append(m.live, nil)
	}
	for t := range next {
		if next[t] == nil {
			next[t] = map[string]*Config{}
		}
		m.live[t] = next[t]
	}
	// keep the snapshots of live configurations only
	for key := range nextSnap {
		alive := false
		for t := range next {
			if _, ok := next[t][key]; ok {
				alive = true
				break
			}
		}
		if !alive {
			delete(nextSnap, key)
		}
	}
	m.snap = nextSnap
	return nil
}

// AggViol merges violations with the same (kind,id,pos).
func (m *M) AggViol() []Violation {
	idx := map[string]int{}
	var out []Violation
	for _, v := range m.Viol {
		if v.G.IsFalse() {
			continue
		}
		k := v.Kind + "|" + v.ID + "|" + v.Pos
		if i, ok := idx[k]; ok {
			out[i].G = m.c.Or(out[i].G, v.G)
		} else {
			idx[k] = len(out)
			out = append(out, v)
		}
	}
	return out
}

// final records stuck / bound-sufficiency conditions on the last state.
func (m *M) final() {
	var enabledAny []*smt.Term
	for t := range m.live {
		for _, cfg := range m.live[t] {
			if cfg.Status == stRun || cfg.Status == stStart {
				enabledAny = append(enabledAny, m.c.And(cfg.G, m.enabled(cfg)))
			}
		}
	}
	notQ := m.c.Or(enabledAny...)
	m.Viol = append(m.Viol, Violation{Kind: "bound", ID: "steps", Pos: fmt.Sprintf("K=%d", m.K), G: notQ})
	for t := range m.live {
		for _, cfg := range m.live[t] {
			if cfg.Status == stRun {
				in := m.curInstr(cfg)
				fr := FireRec{P: in.Pos(), Step: m.K, Th: t, Name: m.threads[t].Name, Pos: m.pos(in), Op: in.String(), G: cfg.G, Fn: m.top(cfg).Fn.Name()}
				if _, ok := in.(*ssa.RunDefers); ok {
					if f := m.top(cfg); len(f.Defers) > 0 {
						d := f.Defers[len(f.Defers)-1].Instr
						fr.P, fr.Deferred, fr.Pos, fr.Op = d.Pos(), true, m.pos(d), "deferred "+d.Common().String()
					}
				}
				m.FinalLog = append(m.FinalLog, fr)
			}
		}
	}
	q := m.c.Not(notQ)
	for t := range m.live {
		for _, cfg := range m.live[t] {
			if cfg.Status == stRun {
				f := cfg.Frames[len(cfg.Frames)-1]
				instr := f.Fn.Blocks[f.Blk].Instrs[f.Idx]
				m.Viol = append(m.Viol, Violation{Kind: "stuck", ID: m.threads[t].Name, Pos: m.pos(instr), G: m.c.And(q, cfg.G)})
			}
		}
	}
}

// ---- memory ----

func (m *M) memGet(p *path, a Addr) Value {
	if p != nil {
		if v, ok := p.ov.mem[a]; ok {
			return v
		}
	}
	if v, ok := m.mem[a]; ok {
		return v
	}
	t, ok := m.leafT[a]
	if !ok {
		panic(fmt.Sprintf("memGet: unknown address %d", a))
	}
	return m.zero(t)
}

func (m *M) memSet(p *path, a Addr, v Value) { p.ov.mem[a] = v }

func (m *M) record(p *path, a Addr, write, plain bool, instr ssa.Instruction) {
	if p.ghost > 0 || (p.cfg.Th == 0 && !p.cfg.Spawned) {
		return
	}
	ai := m.acc[a]
	if ai == nil {
		ai = &accInfo{threads: map[int]bool{}, positions: map[string]bool{}}
		m.acc[a] = ai
	}
	ai.threads[p.cfg.Th] = true
	if ai.per == nil {
		ai.per = map[int]*thrAcc{}
	}
	ta := ai.per[p.cfg.Th]
	if ta == nil {
		ta = &thrAcc{}
		ai.per[p.cfg.Th] = ta
	}
	ta.write = ta.write || write
	if p.cfg.NSpawn > ta.maxSpawn {
		ta.maxSpawn = p.cfg.NSpawn
	}
	ta.spawned |= p.cfg.SpawnMask
	if write {
		ta.spawnedW |= p.cfg.SpawnMask
		if p.cfg.NSpawn > ta.maxSpawnW {
			ta.maxSpawnW = p.cfg.NSpawn
		}
	}
	ai.write = ai.write || write
	ai.plain = ai.plain || plain
	if instr != nil {
		ai.positions[m.pos(instr)] = true
	}
	cur := map[Addr]bool{}
	for _, l := range p.cfg.Locks {
		cur[l] = true
	}
	if !ai.lockInit {
		ai.lockset = cur
		ai.lockInit = true
	} else {
		for l := range ai.lockset {
			if !cur[l] {
				delete(ai.lockset, l)
			}
		}
	}
}

// Hints: names of shared cells / TryLock'ed mutexes found by an earlier run of the same harness.
// They only seed the fixpoint (a superset of the truly shared cells is still sound: it adds
// interleavings); the fixpoint still runs until a full round discovers nothing new.
func (m *M) Hints() (shared, try []string) {
	for k := range m.sharedName {
		shared = append(shared, k)
	}
	for k := range m.tryMutex {
		try = append(try, k)
	}
	sort.Strings(shared)
	sort.Strings(try)
	return
}

func (m *M) SetHints(shared, try []string) {
	for _, k := range shared {
		m.sharedName[k] = true
	}
	for _, k := range try {
		m.tryMutex[k] = true
	}
}

func (m *M) cellName(a Addr) string {
	base := m.blockOf[a]
	return fmt.Sprintf("%s+%d", m.blockKey[base], int(a-base))
}

// SharedUpdate recomputes the shared set from recorded accesses; returns true if it grew.
func (m *M) SharedUpdate() bool {
	grew := m.tryGrew
	m.tryGrew = false
	for a, ai := range m.acc {
		if len(ai.threads) >= 2 && ai.write && len(ai.lockset) == 0 && !m.shared[a] && m.concurrent(ai) {
			m.shared[a] = true
			if m.Verbose {
				fmt.Printf("  round %d: cell %d (%s) becomes shared:", m.Round, a, m.cellName(a))
				for th, ta := range ai.per {
					fmt.Printf(" T%d(%s par T%d idx %d w=%v maxSpawn=%d)", th, m.threads[th].Name, m.threads[th].Parent, m.threads[th].ChildIdx, ta.write, ta.maxSpawn)
				}
				fmt.Println()
			}
			base := m.blockOf[a]
			m.sharedName[fmt.Sprintf("%s+%d", m.blockKey[base], int(a-base))] = true
			grew = true
		}
	}
	return grew
}

// spawnOrdered: are the accesses of thread a (all of them, or only its writes) ordered before
// everything thread b does, because b descends from a child that a spawned afterwards?
func (m *M) spawnOrdered(a, b int, ta *thrAcc, writesOnly bool) bool {
	x := b
	for depth := 0; depth < 64; depth++ {
		par := m.threads[x].Parent
		if par < 0 {
			return false
		}
		if par == a {
			if x >= 64 {
				if writesOnly {
					return ta.maxSpawnW == 0
				}
				return ta.maxSpawn == 0
			}
			if writesOnly {
				return ta.spawnedW&(1<<uint(x)) == 0
			}
			return ta.spawned&(1<<uint(x)) == 0
		}
		x = par
	}
	return false
}

// concurrent: is there a pair of conflicting accesses that is not ordered by thread creation?
func (m *M) concurrent(ai *accInfo) bool {
	for a, ta := range ai.per {
		for b, tb := range ai.per {
			if a >= b || !(ta.write || tb.write) {
				continue
			}
			// writes of a against any access of b
			if ta.write && !(m.spawnOrdered(a, b, ta, true) || m.spawnOrdered(b, a, tb, false)) {
				return true
			}
			// any access of a against writes of b
			if tb.write && !(m.spawnOrdered(a, b, ta, false) || m.spawnOrdered(b, a, tb, true)) {
				return true
			}
		}
	}
	return false
}

func (m *M) isShared(p *path, s *VSet) bool {
	for _, al := range s.Alts {
		if a, ok := al.C.(Addr); ok {
			if m.shared[a] {
				return true
			}
			// round 0 seed: a published cell touched without any lock is probably shared
			if m.Round == 0 && !m.Hinted && m.published[a] && len(p.cfg.Locks) == 0 {
				return true
			}
		}
	}
	return false
}

// publish marks every cell reachable from v as published.
func (m *M) publish(p *path, v Value, depth int) {
	if depth > 12 || v == nil {
		return
	}
	switch x := v.(type) {
	case *VSet:
		for _, al := range x.Alts {
			switch c := al.C.(type) {
			case Addr:
				base, ok := m.blockOf[c]
				if !ok {
					continue
				}
				if m.published[base] && m.published[c] {
					continue
				}
				for i := 0; i < m.blocks[base]; i++ {
					m.published[base+Addr(i)] = true
				}
				for i := 0; i < m.blocks[base]; i++ {
					m.publish(p, m.memGet(p, base+Addr(i)), depth+1)
				}
			case *Closure:
				for _, b := range c.Bindings {
					m.publish(p, b, depth+1)
				}
				if c.Intr != "" {
					m.published[c.A] = true
				}
			case DoneChan:
				m.published[c.Ctx] = true
			}
		}
	case *VIface:
		for _, al := range x.Alts {
			m.publish(p, al.Val, depth+1)
		}
	case VSlice:
		m.publish(p, x.Ptr, depth+1)
	case VTuple:
		for _, e := range x {
			m.publish(p, e, depth+1)
		}
	case VAgg:
		for _, e := range x {
			m.publish(p, e, depth+1)
		}
	}
}

// load reads a value of type t through pointer set s; nil alternatives raise a panic condition.
func (m *M) load(p *path, s *VSet, t types.Type, instr ssa.Instruction, plain bool) Value {
	n := len(leafTypes(t))
	var res Value
	for _, al := range s.Alts {
		switch a := al.C.(type) {
		case NilC:
			m.violate(p, "panic", "nil-deref", instr, al.G)
		case Addr:
			leaves := make([]Value, n)
			for i := 0; i < n; i++ {
				leaves[i] = m.memGet(p, a+Addr(i))
				m.record(p, a+Addr(i), false, plain, instr)
			}
			pos := 0
			v := m.unflatten(t, leaves, &pos)
			if !m.compatible(v, res) {
				base := m.blockOf[a]
				panic(unsupported(fmt.Sprintf("load of %s through a pointer set with incompatible cells: cell %d (+%d in block %q, leaf type %s) at %s", t, a, int(a-base), m.blockKey[base], m.leafT[a], m.pos(instrOrNil(instr)))))
			}
			res = m.merge(al.G, v, res)
		default:
			panic(unsupported(fmt.Sprintf("load through %T", al.C)))
		}
	}
	if res == nil {
		res = m.zero(t)
	}
	return res
}

func (m *M) store(p *path, s *VSet, t types.Type, v Value, instr ssa.Instruction, plain bool) {
	var leaves []Value
	m.flatten(t, v, &leaves)
	for _, al := range s.Alts {
		switch a := al.C.(type) {
		case NilC:
			m.violate(p, "panic", "nil-deref", instr, al.G)
		case Addr:
			for i, lv := range leaves {
				old := m.memGet(p, a+Addr(i))
				m.memSet(p, a+Addr(i), m.merge(al.G, lv, old))
				m.record(p, a+Addr(i), !isParamSpill(instr), plain, instr)
			}
		default:
			panic(unsupported(fmt.Sprintf("store through %T", al.C)))
		}
	}
}

// isParamSpill: the store that initialises the heap cell of a captured parameter or free
// variable at function entry (`t0 = new T (x); *t0 = x`). Nothing can hold the cell's address
// yet, and every other thread reaches the cell only through a closure or pointer created later
// by this activation, so the write is ordered before all of their accesses: it does not count as
// a write for the sharing analysis (a cell that is only read afterwards stays invisible).
func isParamSpill(instr ssa.Instruction) bool {
	st, ok := instr.(*ssa.Store)
	if !ok {
		return false
	}
	al, ok := st.Addr.(*ssa.Alloc)
	if !ok {
		return false
	}
	switch st.Val.(type) {
	case *ssa.Parameter, *ssa.FreeVar:
	default:
		return false
	}
	b := st.Block()
	if b == nil || b.Index != 0 || al.Block() != b {
		return false
	}
	// the store must be the first use of the cell
	for _, in := range b.Instrs {
		if in == instr {
			return true
		}
		if in == ssa.Instruction(al) {
			continue
		}
		for _, op := range in.Operands(nil) {
			if *op == ssa.Value(al) {
				return false
			}
		}
	}
	return false
}

func (m *M) violate(p *path, kind, id string, instr ssa.Instruction, g *smt.Term) {
	cond := m.c.And(p.g, g)
	if cond.IsFalse() {
		return
	}
	pos := "?"
	if instr != nil {
		pos = m.pos(instr)
	}
	m.Viol = append(m.Viol, Violation{Kind: kind, ID: id, Pos: pos, G: cond})
}

type unsupported string

func instrOrNil(i ssa.Instruction) ssa.Instruction { return i }

// compatible: can a and b be merged (same shape)?
func (m *M) compatible(a, b Value) bool {
	if a == nil || b == nil {
		return true
	}
	switch a.(type) {
	case VInt:
		y, ok := b.(VInt)
		return ok && y.T.S == a.(VInt).T.S
	case VBool:
		_, ok := b.(VBool)
		return ok
	case *VSet:
		_, ok := b.(*VSet)
		return ok
	case *VIface:
		_, ok := b.(*VIface)
		return ok
	case VSlice:
		_, ok := b.(VSlice)
		return ok
	case VAgg:
		y, ok := b.(VAgg)
		return ok && len(y) == len(a.(VAgg))
	}
	return true
}

func (m *M) Reset()             { m.reset() }
func (m *M) NumThreads() int    { return len(m.threads) }
func (m *M) Threads() []*Thread { return m.threads }
func (m *M) NumShared() int     { return len(m.shared) }
func (m *M) NumStates() int     { return len(m.cfgSeen) }

// FuncList returns the functions whose bodies were symbolically executed.
func (m *M) FuncList() []string {
	var out []string
	for f := range m.funcs {
		out = append(out, f)
	}
	sort.Strings(out)
	return out
}

func (m *M) noteFunc(fn *ssa.Function) {
	if m.funcs[fn.String()] {
		return
	}
	m.funcs[fn.String()] = true
	if fn.Pos().IsValid() {
		m.funcFile[m.prog.Fset.Position(fn.Pos()).Filename] = true
	}
}

// FileList returns the source files of the functions that were symbolically executed.
func (m *M) FileList() []string {
	seen := map[string]bool{}
	for _, pk := range m.prog.AllPackages() {
		for _, mem := range pk.Members {
			_ = mem
		}
	}
	var out []string
	for f := range m.funcFile {
		if !seen[f] && f != "" {
			seen[f] = true
			out = append(out, f)
		}
	}
	sort.Strings(out)
	return out
}

// StubList returns the environment models (intrinsics) that were exercised.
func (m *M) StubList() []string {
	var out []string
	for f := range m.stubs {
		out = append(out, f)
	}
	sort.Strings(out)
	return out
}
func (m *M) DumpShared() {
	for a := range m.shared {
		ai := m.acc[a]
		if ai == nil {
			continue
		}
		var ps []string
		for p := range ai.positions {
			ps = append(ps, p)
		}
		sort.Strings(ps)
		fmt.Printf("  shared cell %d (%s) threads=%d plain=%v write=%v at %v\n", a, m.leafT[a], len(ai.threads), ai.plain, ai.write, ps)
		for th, ta := range ai.per {
			fmt.Printf("      T%d (%s parent T%d childidx %d): write=%v maxSpawn=%d\n", th, m.threads[th].Name, m.threads[th].Parent, m.threads[th].ChildIdx, ta.write, ta.maxSpawn)
		}
	}
}

// sameValue: cheap identity test (term identity for scalars, object identity for sets).
func sameValue(a, b Value) bool {
	switch x := a.(type) {
	case VInt:
		y, ok := b.(VInt)
		return ok && x.T == y.T
	case VBool:
		y, ok := b.(VBool)
		return ok && x.T == y.T
	case *VSet:
		y, ok := b.(*VSet)
		if !ok {
			return false
		}
		if x == y {
			return true
		}
		if len(x.Alts) != len(y.Alts) {
			return false
		}
		for i := range x.Alts {
			if x.Alts[i].G != y.Alts[i].G || altKey(x.Alts[i].C) != altKey(y.Alts[i].C) {
				return false
			}
		}
		return true
	case *VIface:
		y, ok := b.(*VIface)
		return ok && x == y
	case VStr:
		y, ok := b.(VStr)
		if !ok || x.Len != y.Len || len(x.B) != len(y.B) {
			return false
		}
		for i := range x.B {
			if x.B[i] != y.B[i] {
				return false
			}
		}
		return true
	}
	return false
}
