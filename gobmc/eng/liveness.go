package eng

import (
	"strings"

	"golang.org/x/tools/go/ssa"
)

type liveInfo struct {
	liveOut []map[ssa.Value]bool // per block
}

func isReg(v ssa.Value) bool {
	switch v.(type) {
	case *ssa.Const, *ssa.Function, *ssa.Global, *ssa.FreeVar, *ssa.Builtin:
		return false
	}
	return true
}

func (m *M) liveness(fn *ssa.Function) *liveInfo {
	if li, ok := m.liveTab[fn]; ok {
		return li
	}
	n := len(fn.Blocks)
	li := &liveInfo{liveOut: make([]map[ssa.Value]bool, n)}
	liveIn := make([]map[ssa.Value]bool, n)
	for i := range li.liveOut {
		li.liveOut[i] = map[ssa.Value]bool{}
		liveIn[i] = map[ssa.Value]bool{}
	}
	changed := true
	for changed {
		changed = false
		for bi := n - 1; bi >= 0; bi-- {
			b := fn.Blocks[bi]
			out := li.liveOut[bi]
			for _, s := range b.Succs {
				// live-in of successor minus its phis, plus phi operands for this edge
				for v := range liveIn[s.Index] {
					if ph, ok := v.(*ssa.Phi); ok && ph.Block() == s {
						continue
					}
					if !out[v] {
						out[v] = true
						changed = true
					}
				}
				pi := -1
				for i, p := range s.Preds {
					if p == b {
						pi = i
					}
				}
				for _, in := range s.Instrs {
					ph, ok := in.(*ssa.Phi)
					if !ok {
						break
					}
					if e := ph.Edges[pi]; isReg(e) && !out[e] {
						out[e] = true
						changed = true
					}
				}
			}
			cur := map[ssa.Value]bool{}
			for v := range out {
				cur[v] = true
			}
			for i := len(b.Instrs) - 1; i >= 0; i-- {
				in := b.Instrs[i]
				if v, ok := in.(ssa.Value); ok {
					delete(cur, v)
				}
				if _, ok := in.(*ssa.Phi); ok {
					continue
				}
				var ops []*ssa.Value
				ops = in.Operands(ops)
				for _, op := range ops {
					if *op != nil && isReg(*op) {
						cur[*op] = true
					}
				}
			}
			for v := range cur {
				if !liveIn[bi][v] {
					liveIn[bi][v] = true
					changed = true
				}
			}
		}
	}
	m.liveTab[fn] = li
	return li
}

// liveBefore returns the registers live immediately before instruction idx of block blk.
func (m *M) liveBefore(fn *ssa.Function, blk, idx int) map[ssa.Value]bool {
	li := m.liveness(fn)
	b := fn.Blocks[blk]
	cur := map[ssa.Value]bool{}
	for v := range li.liveOut[blk] {
		cur[v] = true
	}
	for i := len(b.Instrs) - 1; i >= idx; i-- {
		in := b.Instrs[i]
		if v, ok := in.(ssa.Value); ok {
			delete(cur, v)
		}
		if _, ok := in.(*ssa.Phi); ok {
			continue
		}
		var ops []*ssa.Value
		ops = in.Operands(ops)
		for _, op := range ops {
			if *op != nil && isReg(*op) {
				cur[*op] = true
			}
		}
	}
	return cur
}

func frameBase(id string) string {
	if i := strings.Index(id, "#def"); i >= 0 && (strings.HasSuffix(id, "#defargs") || strings.HasSuffix(id, "#deffn")) {
		return id[:i]
	}
	return id
}

// materialize makes the path's overlay hold exactly the registers that are live in the parked
// configurations (from the overlay or, unchanged since the configuration was resumed, from the
// base snapshot), plus the pending defer records of their frames.
func (m *M) materialize(cfgs []*Config, p *path) {
	frames := map[string]map[ssa.Value]bool{}
	for _, c := range cfgs {
		for i, f := range c.Frames {
			var live map[ssa.Value]bool
			if c.Status == stDone || c.Status == stPanic {
				live = map[ssa.Value]bool{}
			} else if i == len(c.Frames)-1 {
				live = m.liveBefore(f.Fn, f.Blk, f.Idx)
			} else if _, isRD := f.Fn.Blocks[f.Blk].Instrs[f.Idx].(*ssa.RunDefers); isRD {
				live = m.liveBefore(f.Fn, f.Blk, f.Idx)
			} else {
				live = m.liveBefore(f.Fn, f.Blk, f.Idx+1)
			}
			if old, ok := frames[f.ID]; ok {
				for v := range live {
					old[v] = true
				}
			} else {
				frames[f.ID] = live
			}
		}
	}
	keep := func(k regKey) bool {
		live, ok := frames[frameBase(k.frame)]
		if !ok {
			return false
		}
		if v, isVal := k.v.(ssa.Value); isVal {
			return live[v]
		}
		return true // defer records
	}
	for k := range p.ov.regs {
		if !keep(k) {
			delete(p.ov.regs, k)
		}
	}
	for k, v := range p.base {
		if _, ok := p.ov.regs[k]; !ok && keep(k) {
			p.ov.regs[k] = v
		}
	}
}

// pruneRegs drops overlay registers that are dead in every parked configuration of the result.
func (m *M) pruneRegs(cfgs []*Config, ov *Ov) {
	type fl struct{ live map[ssa.Value]bool }
	frames := map[string]map[ssa.Value]bool{}
	for _, c := range cfgs {
		for i, f := range c.Frames {
			var live map[ssa.Value]bool
			if i == len(c.Frames)-1 || f.Fn.Blocks[f.Blk].Instrs[f.Idx] == nil {
				live = m.liveBefore(f.Fn, f.Blk, f.Idx)
			} else {
				if _, isRD := f.Fn.Blocks[f.Blk].Instrs[f.Idx].(*ssa.RunDefers); isRD {
					live = m.liveBefore(f.Fn, f.Blk, f.Idx)
				} else {
					live = m.liveBefore(f.Fn, f.Blk, f.Idx+1)
				}
			}
			frames[f.ID] = live
		}
	}
	for k := range ov.regs {
		v, isVal := k.v.(ssa.Value)
		if !isVal {
			continue // defer records etc.
		}
		live, ok := frames[k.frame]
		if !ok || !live[v] {
			delete(ov.regs, k)
		}
	}
}
