package eng

import (
	"fmt"
	"go/types"

	"gobmc/smt"

	"golang.org/x/tools/go/ssa"
)

// Maps are bounded association lists: MapCap slots of (used, key leaves, value leaves).
type mapInfo struct {
	keyT, valT types.Type
	kl, vl     int
	n          int
}

func (m *M) slotAddr(base Addr, mi *mapInfo, i int) Addr {
	return base + Addr(i*(1+mi.kl+mi.vl))
}

func (m *M) makeMap(p *path, fr *Frame, x *ssa.MakeMap) {
	mt := x.Type().Underlying().(*types.Map)
	mi := &mapInfo{keyT: mt.Key(), valT: mt.Elem(), n: m.MapCap}
	mi.kl, mi.vl = len(leafTypes(mi.keyT)), len(leafTypes(mi.valT))
	var fields []*types.Var
	for i := 0; i < mi.n; i++ {
		fields = append(fields, types.NewVar(0, nil, fmt.Sprintf("u%d", i), types.Typ[types.Bool]))
		fields = append(fields, types.NewVar(0, nil, fmt.Sprintf("k%d", i), mi.keyT))
		fields = append(fields, types.NewVar(0, nil, fmt.Sprintf("v%d", i), mi.valT))
	}
	key := fmt.Sprintf("map:%s@%d.%d%s", fr.ID, fr.Blk, fr.Idx, loopsSig(fr.Loops))
	a := m.alloc(key, types.NewStruct(fields, nil))
	m.mapTab[a] = mi
	m.set(p, fr, x, m.addrSet(a))
}

func (m *M) readLeaves(p *path, a Addr, t types.Type, n int, instr ssa.Instruction) Value {
	leaves := make([]Value, n)
	for i := 0; i < n; i++ {
		leaves[i] = m.memGet(p, a+Addr(i))
		m.record(p, a+Addr(i), false, true, instr)
	}
	pos := 0
	return m.unflatten(t, leaves, &pos)
}

func (m *M) writeLeaves(p *path, a Addr, t types.Type, v Value, g *smt.Term, instr ssa.Instruction) {
	var leaves []Value
	m.flatten(t, v, &leaves)
	for i, lv := range leaves {
		old := m.memGet(p, a+Addr(i))
		m.memSet(p, a+Addr(i), m.merge(g, lv, old))
		m.record(p, a+Addr(i), true, true, instr)
	}
}

type slotView struct {
	used  *smt.Term
	found *smt.Term
	a     Addr
}

func (m *M) slots(p *path, base Addr, mi *mapInfo, k Value, instr ssa.Instruction) []slotView {
	out := make([]slotView, mi.n)
	for i := 0; i < mi.n; i++ {
		a := m.slotAddr(base, mi, i)
		used := m.memGet(p, a).(VBool).T
		m.record(p, a, false, true, instr)
		sv := slotView{used: used, a: a}
		if k != nil {
			if used.IsFalse() {
				sv.found = m.c.F
			} else {
				kv := m.readLeaves(p, a+1, mi.keyT, mi.kl, instr)
				sv.found = m.c.And(used, m.eqValues(kv, k))
			}
		}
		out[i] = sv
	}
	return out
}

// forEachMap applies f to every concrete map alternative.
func (m *M) forEachMap(p *path, s *VSet, instr ssa.Instruction, nilOK bool, f func(g *smt.Term, base Addr, mi *mapInfo)) {
	for _, al := range s.Alts {
		switch a := al.C.(type) {
		case NilC:
			if !nilOK {
				m.violate(p, "panic", "nil-map-write", instr, al.G)
			}
		case Addr:
			f(al.G, a, m.mapTab[a])
		}
	}
}

func (m *M) mapUpdate(p *path, fr *Frame, x *ssa.MapUpdate) {
	c := m.c
	k, v := m.get(p, fr, x.Key), m.get(p, fr, x.Value)
	m.forEachMap(p, m.get(p, fr, x.Map).(*VSet), x, false, func(g *smt.Term, base Addr, mi *mapInfo) {
		sl := m.slots(p, base, mi, k, x)
		var founds []*smt.Term
		for _, s := range sl {
			founds = append(founds, s.found)
		}
		any := c.Or(founds...)
		prevUsed := c.T
		for _, s := range sl {
			free := c.And(c.Not(s.used), prevUsed)
			w := c.And(g, c.Or(s.found, c.And(c.Not(any), free)))
			prevUsed = c.And(prevUsed, s.used)
			if w.IsFalse() {
				continue
			}
			m.memSet(p, s.a, VBool{c.Or(s.used, w)})
			m.record(p, s.a, true, true, x)
			m.writeLeaves(p, s.a+1, mi.keyT, k, w, x)
			m.writeLeaves(p, s.a+1+Addr(mi.kl), mi.valT, v, w, x)
		}
		// all slots used and key absent: capacity bound exceeded
		full := c.And(g, c.Not(any), prevUsed)
		if !c.And(p.g, full).IsFalse() {
			m.Viol = append(m.Viol, Violation{Kind: "bound", ID: "map-capacity", Pos: m.pos(x), G: c.And(p.g, full)})
		}
	})
}

func (m *M) mapLookup(p *path, fr *Frame, x *ssa.Lookup) {
	c := m.c
	mt, ok := x.X.Type().Underlying().(*types.Map)
	if !ok {
		sv := m.get(p, fr, x.X).(VStr)
		idx := m.get(p, fr, x.Index).(VInt).T
		if idx.S != 64 {
			idx = c.ZExt(int(64-idx.S), idx)
		}
		m.set(p, fr, x, m.strIndex(p, x, sv, idx))
		return
	}
	k := m.get(p, fr, x.Index)
	var val Value = m.zero(mt.Elem())
	okT := c.F
	m.forEachMap(p, m.get(p, fr, x.X).(*VSet), x, true, func(g *smt.Term, base Addr, mi *mapInfo) {
		for _, s := range m.slots(p, base, mi, k, x) {
			f := c.And(g, s.found)
			if f.IsFalse() {
				continue
			}
			v := m.readLeaves(p, s.a+1+Addr(mi.kl), mi.valT, mi.vl, x)
			val = m.merge(f, v, val)
			okT = c.Or(okT, f)
		}
	})
	if x.CommaOk {
		m.set(p, fr, x, VTuple{val, VBool{okT}})
	} else {
		m.set(p, fr, x, val)
	}
}

func (m *M) mapDelete(p *path, ci ssa.Instruction, ms *VSet, k Value) {
	c := m.c
	m.forEachMap(p, ms, ci, true, func(g *smt.Term, base Addr, mi *mapInfo) {
		for _, s := range m.slots(p, base, mi, k, ci) {
			f := c.And(g, s.found)
			if f.IsFalse() {
				continue
			}
			m.memSet(p, s.a, VBool{c.And(s.used, c.Not(f))})
			m.record(p, s.a, true, true, ci)
		}
	})
}

func (m *M) mapLen(p *path, ci ssa.Instruction, ms *VSet) VInt {
	c := m.c
	total := c.BV(0, 64)
	m.forEachMap(p, ms, ci, true, func(g *smt.Term, base Addr, mi *mapInfo) {
		for _, s := range m.slots(p, base, mi, nil, ci) {
			total = c.BinBV("bvadd", total, c.Ite(c.And(g, s.used), c.BV(1, 64), c.BV(0, 64)))
		}
	})
	return VInt{total}
}

// range: the iterator is a heap cell holding the cursor; iteration is in slot order.
func (m *M) mapRange(p *path, fr *Frame, x *ssa.Range) {
	if _, ok := x.X.Type().Underlying().(*types.Map); !ok {
		panic(unsupported("range over string"))
	}
	key := fmt.Sprintf("iter:%s@%d.%d%s", fr.ID, fr.Blk, fr.Idx, loopsSig(fr.Loops))
	a := m.alloc(key, types.Typ[types.Int])
	m.memSet(p, a, VInt{m.c.BV(0, 64)})
	m.iterTab[a] = m.get(p, fr, x.X).(*VSet)
	m.set(p, fr, x, m.addrSet(a))
}

func (m *M) mapNext(p *path, fr *Frame, x *ssa.Next) {
	c := m.c
	if x.IsString {
		panic(unsupported("range over string"))
	}
	it := m.get(p, fr, x.Iter).(*VSet)
	ia, ok := singleAddr(it)
	if !ok {
		panic(unsupported("symbolic iterator"))
	}
	cur := m.memGet(p, ia).(VInt).T
	mt := x.Iter.(*ssa.Range).X.Type().Underlying().(*types.Map)
	var kv, vv Value = m.zero(mt.Key()), m.zero(mt.Elem())
	okT := c.F
	next := cur
	m.forEachMap(p, m.iterTab[ia], x, true, func(g *smt.Term, base Addr, mi *mapInfo) {
		taken := c.F // some earlier slot >= cursor was already selected
		for i, s := range m.slots(p, base, mi, nil, x) {
			here := c.And(g, s.used, c.Cmp("bvule", cur, c.BV(int64(i), 64)), c.Not(taken))
			taken = c.Or(taken, here)
			if here.IsFalse() {
				continue
			}
			k := m.readLeaves(p, s.a+1, mi.keyT, mi.kl, x)
			v := m.readLeaves(p, s.a+1+Addr(mi.kl), mi.valT, mi.vl, x)
			kv = m.merge(here, k, kv)
			vv = m.merge(here, v, vv)
			next = c.Ite(here, c.BV(int64(i+1), 64), next)
			okT = c.Or(okT, here)
		}
	})
	m.memSet(p, ia, VInt{next})
	m.set(p, fr, x, VTuple{VBool{okT}, kv, vv})
}
