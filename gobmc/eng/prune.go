package eng

import (
	"bufio"
	"fmt"
	"io"
	"os/exec"
	"strings"
	"time"

	"gobmc/smt"
)

// Pruner keeps an incremental solver session and answers "is this guard satisfiable under the
// assumptions collected so far?". Only a definite unsat prunes; anything else keeps the guard.
type Pruner struct {
	cmd      *exec.Cmd
	in       io.WriteCloser
	out      *bufio.Reader
	emitted  map[int]bool
	nAssumed int
	Queries  int
	Pruned   int
	Unknown  int
	Sec      float64
}

func NewPruner(solver string) (*Pruner, error) {
	cmd := exec.Command(solver, "-in")
	in, err := cmd.StdinPipe()
	if err != nil {
		return nil, err
	}
	out, err := cmd.StdoutPipe()
	if err != nil {
		return nil, err
	}
	if err := cmd.Start(); err != nil {
		return nil, err
	}
	p := &Pruner{cmd: cmd, in: in, out: bufio.NewReader(out), emitted: map[int]bool{}}
	fmt.Fprintln(in, "(set-logic QF_BV)\n(set-option :timeout 3000)")
	return p, nil
}

func (p *Pruner) Close() {
	p.in.Close()
	p.cmd.Wait()
}

func (m *M) feasible(g *smt.Term) bool { return m.feasibleOn(m.Pruner, g) }

// feasibleOn asks one solver session (each session receives every definition and assumption it
// has not seen yet, so several sessions can answer independent questions in parallel).
func (m *M) feasibleOn(pr *Pruner, g *smt.Term) bool {
	if pr == nil || g.IsTrue() {
		return true
	}
	if g.IsFalse() {
		return false
	}
	var sb strings.Builder
	// definitions and any new assumptions
	roots := []*smt.Term{g}
	newAss := m.Assumes[pr.nAssumed:]
	roots = append(roots, newAss...)
	m.c.Emit(&sb, pr.emitted, roots...)
	for _, a := range newAss {
		fmt.Fprintf(&sb, "(assert %s)\n", smt.Ref(a))
	}
	pr.nAssumed = len(m.Assumes)
	fmt.Fprintf(&sb, "(check-sat-assuming (%s))\n", smt.Ref(g))
	t0 := time.Now()
	io.WriteString(pr.in, sb.String())
	line, err := pr.out.ReadString('\n')
	pr.Sec += time.Since(t0).Seconds()
	pr.Queries++
	if l := strings.TrimSpace(line); l != "sat" && l != "unsat" {
		pr.Unknown++
	}
	if err != nil {
		return true
	}
	if strings.TrimSpace(line) == "unsat" {
		pr.Pruned++
		return false
	}
	return true
}
