package eng

import (
	"fmt"
	"go/constant"
	"go/token"
	"go/types"
	"sort"
	"strings"

	"gobmc/smt"

	"golang.org/x/tools/go/ssa"
)

func (m *M) top(c *Config) *Frame { return c.Frames[len(c.Frames)-1] }

func (m *M) curInstr(c *Config) ssa.Instruction {
	f := m.top(c)
	return f.Fn.Blocks[f.Blk].Instrs[f.Idx]
}

// ---- register access ----

func (m *M) constVal(k *ssa.Const) Value {
	t := k.Type()
	if k.Value == nil {
		return m.zero(t)
	}
	switch u := t.Underlying().(type) {
	case *types.Basic:
		if u.Info()&types.IsBoolean != 0 {
			return VBool{m.c.Bool(constant.BoolVal(k.Value))}
		}
		if u.Info()&types.IsString != 0 {
			return m.strConst(constant.StringVal(k.Value))
		}
		if w, _, ok := intWidth(t); ok {
			if i, ok := constant.Int64Val(constant.ToInt(k.Value)); ok {
				return VInt{m.c.BV(i, w)}
			}
			u, _ := constant.Uint64Val(constant.ToInt(k.Value))
			return VInt{m.c.BV(int64(u), w)}
		}
	}
	panic(unsupported(fmt.Sprintf("const %s of type %s", k, t)))
}

func (m *M) get(p *path, fr *Frame, v ssa.Value) Value {
	switch x := v.(type) {
	case *ssa.Const:
		return m.constVal(x)
	case *ssa.Function:
		return m.closSet(m.mkClosure("fn:"+x.String(), x, nil))
	case *ssa.Global:
		return m.addrSet(m.globalAddr(x))
	case *ssa.FreeVar:
		for i, fv := range fr.Fn.FreeVars {
			if fv == x {
				return fr.Bind[i]
			}
		}
		panic("freevar not found")
	case *ssa.Builtin:
		panic(unsupported("builtin as value " + x.Name()))
	}
	key := regKey{fr.ID, v}
	if val, ok := p.ov.regs[key]; ok {
		return val
	}
	if val, ok := p.base[key]; ok {
		return val
	}
	panic(fmt.Sprintf("register %s (%s) undefined in frame %s", v.Name(), v, fr.ID))
}

func (m *M) set(p *path, fr *Frame, v ssa.Value, val Value) {
	p.ov.regs[regKey{fr.ID, v}] = val
}

// mkClosure interns closures by creation key so that re-executing the same MakeClosure at the
// same control configuration (in another step / merged path) yields the same concrete value.
func (m *M) mkClosure(key string, fn *ssa.Function, bind []Value) *Closure {
	if cl, ok := m.closTab[key]; ok {
		cl.Bindings = bind
		return cl
	}
	m.closID++
	cl := &Closure{Fn: fn, Bindings: bind, id: m.closID}
	m.closTab[key] = cl
	return cl
}

func (m *M) globalAddr(g *ssa.Global) Addr {
	if a, ok := m.globTab[g]; ok {
		return a
	}
	t := g.Type().(*types.Pointer).Elem()
	a := m.alloc("global:"+g.String(), t)
	m.globTab[g] = a
	// sentinel error globals: a distinct opaque non-nil object each
	if types.IsInterface(t) && len(leafTypes(t)) == 1 {
		obj := m.alloc("globalobj:"+g.String(), types.Typ[types.Int])
		m.mem[a] = &VIface{Alts: []IAlt{{m.c.T, m.opaqueErrType(), m.addrSet(obj)}}}
	}
	return a
}

var opaqueErr = types.NewNamed(types.NewTypeName(token.NoPos, nil, "opaqueError", nil), types.NewPointer(types.Typ[types.Int]), nil)
var ctxObjType = types.NewNamed(types.NewTypeName(token.NoPos, nil, "ctxObject", nil), types.NewPointer(types.Typ[types.Int]), nil)

func (m *M) opaqueErrType() types.Type { return opaqueErr }

// ---- enabledness of the pending visible operation of a parked config ----

func (m *M) enabled(c *Config) *smt.Term {
	if c.Status == stStart {
		if c.Gate > 0 {
			return m.c.Eq(m.memGet(nil, c.Gate).(VInt).T, m.c.BV(2, 8))
		}
		return m.c.T
	}
	fr := m.top(c)
	instr := m.curInstr(c)
	p := &path{cfg: c, g: m.c.T, ov: newOv(), probe: true, base: m.snap[c.key()]}
	switch x := instr.(type) {
	case *ssa.Select:
		if !x.Blocking {
			return m.c.T
		}
		var rs []*smt.Term
		for _, st := range x.States {
			rs = append(rs, m.chanReady(p, m.get(p, fr, st.Chan).(*VSet), st.Dir))
		}
		return m.c.Or(rs...)
	case *ssa.UnOp:
		if x.Op == token.ARROW {
			return m.chanReady(p, m.get(p, fr, x.X).(*VSet), types.RecvOnly)
		}
		return m.c.T
	case *ssa.Send:
		return m.chanReady(p, m.get(p, fr, x.Chan).(*VSet), types.SendOnly)
	case *ssa.RunDefers:
		if len(fr.Defers) > 0 {
			d := fr.Defers[len(fr.Defers)-1]
			return m.callEnabled(p, fr, d.Instr, &d)
		}
		return m.c.T
	case ssa.CallInstruction:
		return m.callEnabled(p, fr, x, nil)
	}
	return m.c.T
}

func (m *M) callEnabled(p *path, fr *Frame, ci ssa.CallInstruction, d *DeferRec) *smt.Term {
	cc := ci.Common()
	if cc.IsInvoke() {
		return m.c.T
	}
	fn := cc.StaticCallee()
	if fn == nil {
		return m.c.T
	}
	switch fn.String() {
	case "(*sync.Mutex).Lock", "(*sync.RWMutex).Lock":
		var recv Value
		if d != nil {
			recv = m.deferArgs(p, fr, d)[0]
		} else {
			recv = m.get(p, fr, cc.Args[0])
		}
		v := m.load(p, recv.(*VSet), m.elemType(cc.Args[0].Type()), nil, false)
		return m.c.Not(v.(VBool).T)
	}
	return m.c.T
}

func (m *M) elemType(t types.Type) types.Type { return t.Underlying().(*types.Pointer).Elem() }

// chanReady: is a receive (or send) on the channel set possible now?
func (m *M) chanReady(p *path, s *VSet, dir types.ChanDir) *smt.Term {
	var ds []*smt.Term
	for _, al := range s.Alts {
		switch a := al.C.(type) {
		case NilC:
		case DoneChan:
			ds = append(ds, m.c.And(al.G, m.ctxCancelled(p, a.Ctx, 0)))
		case Addr:
			closed := m.memGet(p, a).(VBool).T
			cnt := m.memGet(p, a+1).(VInt).T
			if dir == types.RecvOnly {
				ds = append(ds, m.c.And(al.G, m.c.Or(closed, m.c.Not(m.c.Eq(cnt, m.c.BV(0, 64))))))
			} else {
				capv := m.memGet(p, a+2).(VInt).T
				ds = append(ds, m.c.And(al.G, m.c.Or(closed, m.c.Cmp("bvult", cnt, capv))))
			}
		}
	}
	return m.c.Or(ds...)
}

// context objects: leaf0 cancelled (Bool), leaf1 parent (*ctx)
func (m *M) ctxCancelled(p *path, a Addr, depth int) *smt.Term {
	if depth > 6 {
		panic(unsupported("context chain deeper than 6"))
	}
	c := m.c
	own := m.memGet(p, a).(VBool).T
	// environment cancellation (vrt.CancelAnytime): the flag may flip exactly at a read
	if armed := m.memGet(p, a+2).(VBool).T; !armed.IsFalse() {
		if p.probe {
			own = c.Or(own, armed) // enabledness: the environment could cancel now
		} else {
			fr := m.top(p.cfg)
			name := fmt.Sprintf("env!%d!%s@%d.%d%s!%d", m.curStep, fr.ID, fr.Blk, fr.Idx, loopsSig(fr.Loops), int(a))
			b := c.Var(name, 0)
			m.Nondet[name] = b
			m.EnvLog = append(m.EnvLog, EnvRec{Step: m.curStep, Ctx: a, G: c.And(p.g, armed, b, c.Not(own))})
			own = c.Or(own, c.And(armed, b))
			m.memSet(p, a, VBool{own})
			m.record(p, a, true, false, nil)
		}
	}
	par := m.memGet(p, a+1).(*VSet)
	var ds []*smt.Term
	ds = append(ds, own)
	for _, al := range par.Alts {
		if pa, ok := al.C.(Addr); ok {
			ds = append(ds, c.And(al.G, m.ctxCancelled(p, pa, depth+1)))
		}
	}
	return c.Or(ds...)
}

// ctxShared: is the cancellation flag of any context in s, or of an ancestor, a shared cell?
func (m *M) ctxShared(p *path, s *VSet, depth int) bool {
	if depth > 6 {
		return true
	}
	if m.isShared(p, s) {
		return true
	}
	for _, al := range s.Alts {
		if a, ok := al.C.(Addr); ok {
			if par, ok := m.memGet(p, a+1).(*VSet); ok && m.ctxShared(p, par, depth+1) {
				return true
			}
		}
	}
	return false
}

// ---- visibility ----

func (m *M) visible(p *path, fr *Frame, instr ssa.Instruction) bool {
	if p.ghost > 0 || fr.Ghost {
		return false
	}
	switch x := instr.(type) {
	case *ssa.Select:
		return true
	case *ssa.Send:
		return true
	case *ssa.UnOp:
		if x.Op == token.ARROW {
			return true
		}
		if x.Op == token.MUL {
			if s, ok := m.get(p, fr, x.X).(*VSet); ok {
				return m.isShared(p, s)
			}
		}
	case *ssa.Store:
		if s, ok := m.get(p, fr, x.Addr).(*VSet); ok {
			return m.isShared(p, s)
		}
	case *ssa.RunDefers:
		if len(fr.Defers) > 0 {
			d := fr.Defers[len(fr.Defers)-1]
			return m.callVisible(p, fr, d.Instr, &d)
		}
	case *ssa.Call:
		return m.callVisible(p, fr, x, nil)
	}
	return false
}

func (m *M) callVisible(p *path, fr *Frame, ci ssa.CallInstruction, d *DeferRec) bool {
	cc := ci.Common()
	arg0 := func() Value {
		if d != nil {
			return m.deferArgs(p, fr, d)[0]
		}
		return m.get(p, fr, cc.Args[0])
	}
	if cc.IsInvoke() {
		if isContext(cc.Value.Type()) && cc.Method.Name() == "Err" {
			// reading cancellation state: visible iff the ctx cell (or an ancestor) is shared
			var recv Value
			if d != nil {
				recv = m.deferFn(p, fr, d)
			} else {
				recv = m.get(p, fr, cc.Value)
			}
			if iv, ok := recv.(*VIface); ok {
				for _, al := range iv.Alts {
					if s, ok := al.Val.(*VSet); ok && m.ctxShared(p, s, 0) {
						return true
					}
				}
			}
		}
		return false
	}
	if bi, ok := cc.Value.(*ssa.Builtin); ok {
		return bi.Name() == "close"
	}
	fn := cc.StaticCallee()
	if fn == nil {
		// dynamic closure call: intrinsic closures (cancel) are visible if the ctx cell is shared
		var fv Value
		if d != nil {
			fv = m.deferFn(p, fr, d)
		} else {
			fv = m.get(p, fr, cc.Value)
		}
		if s, ok := fv.(*VSet); ok {
			for _, al := range s.Alts {
				if cl, ok := al.C.(*Closure); ok && cl.Intr == "cancel" {
					return m.shared[cl.A]
				}
			}
		}
		return false
	}
	name := fn.String()
	switch name {
	case "(*sync.Mutex).Lock", "(*sync.Mutex).TryLock", "(*sync.RWMutex).Lock":
		// Unlock is a left-mover: it never starts a new step (Lipton reduction).
		// In a program that never has a second thread a lock operation cannot interact with
		// anybody: it stays inside the macro-step (self-deadlock is raised by the intrinsic).
		return !m.Single
	case "(*sync.Mutex).Unlock", "(*sync.RWMutex).Unlock":
		// Unlock is a left-mover only with respect to Lock; a TryLock observes whether the
		// mutex is held, so on mutexes that are ever TryLock'ed the Unlock is a step boundary
		// (a critical section can then be seen "in progress" by a TryLock)
		if m.Single {
			return false
		}
		if a, ok := singleAddr(arg0()); ok {
			return m.tryMutex[m.cellName(a)]
		}
		return false
	}
	if strings.HasSuffix(fnPkg(fn), "/vrt") && (fn.Name() == "Atomic" || fn.Name() == "Advance") {
		return true
	}
	if rp, rt := recvNamed(fn); rp == "time" && rt == "Timer" {
		if s, ok := arg0().(*VSet); ok {
			return m.isShared(p, s)
		}
	}
	if fn.Pkg != nil && fn.Pkg.Pkg.Path() == "sync/atomic" || isAtomicMethod(fn) {
		if s, ok := arg0().(*VSet); ok {
			return m.isShared(p, s)
		}
	}
	return false
}

func isAtomicMethod(fn *ssa.Function) bool {
	if fn.Signature.Recv() == nil {
		return false
	}
	t := fn.Signature.Recv().Type()
	if pt, ok := t.(*types.Pointer); ok {
		t = pt.Elem()
	}
	if n, ok := t.(*types.Named); ok && n.Obj().Pkg() != nil && n.Obj().Pkg().Path() == "sync/atomic" {
		return true
	}
	return false
}

func isContext(t types.Type) bool {
	if n, ok := t.(*types.Named); ok && n.Obj().Pkg() != nil {
		return n.Obj().Pkg().Path() == "context" && n.Obj().Name() == "Context"
	}
	return false
}

// ---- the macro-step interpreter ----

// finish parks the path's thread; children spawned during the macro-step then run their
// thread-local prefix eagerly (same guard, same overlay) up to their first visible operation.
func (m *M) finish(p *path, work *[]*path, results *[]*result) {
	for len(p.spawns) > 0 && p.spawns[0].Gate != 0 {
		p.carry = append(p.carry, p.spawns[0]) // gated threads start later, on their own
		p.spawns = p.spawns[1:]
	}
	if len(p.spawns) > 0 {
		child := p.spawns[0]
		q := &path{cfg: child.clone(), g: p.g, ov: p.ov, first: false, spawns: p.spawns[1:], ghost: 0, base: p.base}
		q.cfg.Status = stRun
		q.carry = append(append([]*Config(nil), p.carry...), p.cfg)
		*work = append(*work, q)
		return
	}
	cfgs := append(append([]*Config(nil), p.carry...), p.cfg)
	m.materialize(cfgs, p)
	*results = append(*results, &result{cfgs: cfgs, g: p.g, ov: p.ov})
}

func (m *M) runPath(p *path, work *[]*path, results *[]*result) {
	if p.g.IsFalse() {
		return
	}
	if p.cfg.Status == stStart {
		p.cfg.Status = stRun
		p.first = false // the start step itself is the visible op; now run to the first real visible op
		if p.cfg.Gate > 0 {
			m.memSet(p, p.cfg.Gate, VInt{m.c.BV(3, 8)}) // timer fired
			m.record(p, p.cfg.Gate, true, false, nil)
		}
	}
	if p.cfg.Status != stRun {
		m.finish(p, work, results)
		return
	}
	for steps := 0; ; steps++ {
		if steps > 20000 {
			panic(unsupported("macro-step too long (invisible loop?)"))
		}
		fr := m.top(p.cfg)
		instr := fr.Fn.Blocks[fr.Blk].Instrs[fr.Idx]
		if m.visible(p, fr, instr) {
			if !p.first {
				m.finish(p, work, results)
				return
			}
			p.first = false
		}
		if m.Trace {
			fmt.Printf("  T%d %s: %s\n", p.cfg.Th, fr.ID, instr)
		}
		depth := len(p.cfg.Frames)
		if m.Trace {
			if v, ok := instr.(ssa.Value); ok {
				defer func(fr *Frame, v ssa.Value) {}(fr, v)
			}
		}
		if !m.exec(p, fr, instr, work) {
			// path ended (thread finished, parked, panicked) or was replaced by forks
			if p.cfg != nil && (p.cfg.Status == stDone || p.cfg.Status == stPanic || p.cfg.Status == stParked) {
				m.finish(p, work, results)
			}
			return
		}
		if m.Trace {
			if v, ok := instr.(ssa.Value); ok {
				if val, ok := p.ov.regs[regKey{fr.ID, v}]; ok {
					fmt.Printf("      => %s = %s\n", v.Name(), m.show(val))
				}
			}
		}
		if p.g.IsFalse() {
			return
		}
		// merge points: after every control transfer (jump, branch, call, return) the path goes
		// back to the pending set, where paths at the same control configuration are merged
		switch instr.(type) {
		case *ssa.Jump, *ssa.If, *ssa.Return, *ssa.RunDefers:
			*work = append(*work, p)
			return
		}
		if len(p.cfg.Frames) != depth {
			*work = append(*work, p)
			return
		}
	}
}

// ---- pending set with merging ----

func (p *path) mergeKey() string {
	var sb strings.Builder
	sb.WriteString(p.cfg.key())
	fmt.Fprintf(&sb, "|f%v|g%d", p.first, p.ghost)
	for _, c := range p.carry {
		sb.WriteString("|C" + c.key())
	}
	for _, c := range p.spawns {
		fmt.Fprintf(&sb, "|S%d", c.Th)
	}
	return sb.String()
}

func (m *M) rpo(fn *ssa.Function) []int {
	if r, ok := m.rpoTab[fn]; ok {
		return r
	}
	n := len(fn.Blocks)
	seen := make([]bool, n)
	var post []int
	var dfs func(b *ssa.BasicBlock)
	dfs = func(b *ssa.BasicBlock) {
		seen[b.Index] = true
		for _, s := range b.Succs {
			if !seen[s.Index] {
				dfs(s)
			}
		}
		post = append(post, b.Index)
	}
	if n > 0 {
		dfs(fn.Blocks[0])
	}
	r := make([]int, n)
	for i := range r {
		r[i] = n + i // unreachable blocks last
	}
	for i, b := range post {
		r[b] = len(post) - 1 - i
	}
	m.rpoTab[fn] = r
	return r
}

// pathLess orders pending paths so that paths that are "behind" run first and can merge with the
// ones waiting at the join.
func (m *M) pathLess(a, b *path) bool {
	if len(a.carry) != len(b.carry) {
		return len(a.carry) < len(b.carry)
	}
	fa, fb := a.cfg.Frames, b.cfg.Frames
	for i := 0; i < len(fa) && i < len(fb); i++ {
		x, y := fa[i], fb[i]
		if x.Fn != y.Fn {
			return x.Fn.String() < y.Fn.String()
		}
		// loops containing both positions: the smaller iteration count is behind; compared
		// outermost (largest body) first
		li := m.loopInfo(x.Fn)
		type cl struct{ h, size int }
		var common []cl
		for h, body := range li {
			if body[x.Blk] && body[y.Blk] {
				common = append(common, cl{h, len(body)})
			}
		}
		sort.Slice(common, func(i, j int) bool {
			if common[i].size != common[j].size {
				return common[i].size > common[j].size
			}
			return common[i].h < common[j].h
		})
		decided := false
		for _, c := range common {
			if x.Loops[c.h] != y.Loops[c.h] {
				return x.Loops[c.h] < y.Loops[c.h]
			}
		}
		_ = decided
		rx, ry := m.rpo(x.Fn)[x.Blk], m.rpo(y.Fn)[y.Blk]
		if rx != ry {
			return rx < ry
		}
		if x.Idx != y.Idx {
			return x.Idx < y.Idx
		}
		lx, ly := 0, 0
		for _, v := range x.Loops {
			lx += v
		}
		for _, v := range y.Loops {
			ly += v
		}
		if lx != ly {
			return lx < ly
		}
	}
	return len(fa) > len(fb) // deeper stack is behind
}

// mergePaths merges q into p (same mergeKey); guards are disjoint.
func (m *M) mergePaths(p, q *path) {
	for k, v := range q.ov.regs {
		if pv, ok := p.ov.regs[k]; ok {
			if !sameValue(pv, v) {
				p.ov.regs[k] = m.merge(q.g, v, pv)
			}
		} else {
			base := p.base[k]
			p.ov.regs[k] = m.merge(q.g, v, base)
		}
	}
	for k, pv := range p.ov.regs {
		if _, ok := q.ov.regs[k]; !ok {
			if base, ok := p.base[k]; ok {
				p.ov.regs[k] = m.merge(q.g, base, pv)
			}
		}
	}
	for a, v := range q.ov.mem {
		if pv, ok := p.ov.mem[a]; ok {
			if !sameValue(pv, v) {
				p.ov.mem[a] = m.merge(q.g, v, pv)
			}
		} else {
			p.ov.mem[a] = m.merge(q.g, v, m.memGet(nil, a))
		}
	}
	for a, pv := range p.ov.mem {
		if _, ok := q.ov.mem[a]; !ok {
			p.ov.mem[a] = m.merge(q.g, m.memGet(nil, a), pv)
		}
	}
	p.g = m.c.Or(p.g, q.g)
}

// runMacro runs one firing to completion with merging at control-flow joins.
func (m *M) runMacro(start *path, results *[]*result) int {
	pend := map[string]*path{}
	add := func(q *path) {
		if q.g.IsFalse() {
			return
		}
		k := q.mergeKey()
		if old, ok := pend[k]; ok {
			m.mergePaths(old, q)
		} else {
			pend[k] = q
		}
	}
	add(start)
	n := 0
	for len(pend) > 0 {
		var best *path
		var bestK string
		for k, q := range pend {
			if best == nil || m.pathLess(q, best) || (!m.pathLess(best, q) && k < bestK) {
				best, bestK = q, k
			}
		}
		delete(pend, bestK)
		n++
		var out []*path
		m.runPath(best, &out, results)
		for _, o := range out {
			add(o)
		}
	}
	return n
}

// jump moves to successor block, evaluating phis and maintaining loop counters.
func (m *M) jump(p *path, fr *Frame, from, to *ssa.BasicBlock) bool {
	// phis
	var vals []Value
	var phis []*ssa.Phi
	pi := -1
	for i, pr := range to.Preds {
		if pr == from {
			pi = i
			break
		}
	}
	for _, in := range to.Instrs {
		ph, ok := in.(*ssa.Phi)
		if !ok {
			break
		}
		phis = append(phis, ph)
		vals = append(vals, m.get(p, fr, ph.Edges[pi]))
	}
	for i, ph := range phis {
		m.set(p, fr, ph, vals[i])
	}
	li := m.loopInfo(fr.Fn)
	for h := range fr.Loops {
		if !li[h][to.Index] {
			delete(fr.Loops, h)
		}
	}
	if to.Dominates(from) { // back edge
		fr.Loops[to.Index]++
		if fr.Loops[to.Index] > m.U {
			m.Viol = append(m.Viol, Violation{Kind: "bound", ID: "unwind", Pos: fmt.Sprintf("%s block %d", fr.Fn, to.Index), G: p.g})
			p.g = m.c.F
			return false
		}
	}
	fr.Blk, fr.Idx = to.Index, len(phis)
	return true
}

func (m *M) intBin(op token.Token, t types.Type, a, b *smt.Term) Value {
	_, signed, _ := intWidth(t)
	c := m.c
	switch op {
	case token.ADD:
		return VInt{c.BinBV("bvadd", a, b)}
	case token.SUB:
		return VInt{c.BinBV("bvsub", a, b)}
	case token.MUL:
		return VInt{c.BinBV("bvmul", a, b)}
	case token.AND:
		return VInt{c.BinBV("bvand", a, b)}
	case token.OR:
		return VInt{c.BinBV("bvor", a, b)}
	case token.XOR:
		return VInt{c.BinBV("bvxor", a, b)}
	case token.REM:
		if signed {
			return VInt{c.BinBV("bvsrem", a, b)}
		}
		return VInt{c.BinBV("bvurem", a, b)}
	case token.QUO:
		if signed {
			return VInt{c.BinBV("bvsdiv", a, b)}
		}
		return VInt{c.BinBV("bvudiv", a, b)}
	case token.EQL:
		return VBool{c.Eq(a, b)}
	case token.NEQ:
		return VBool{c.Not(c.Eq(a, b))}
	case token.LSS:
		if signed {
			return VBool{c.Cmp("bvslt", a, b)}
		}
		return VBool{c.Cmp("bvult", a, b)}
	case token.LEQ:
		if signed {
			return VBool{c.Cmp("bvsle", a, b)}
		}
		return VBool{c.Cmp("bvule", a, b)}
	case token.GTR:
		if signed {
			return VBool{c.Cmp("bvslt", b, a)}
		}
		return VBool{c.Cmp("bvult", b, a)}
	case token.GEQ:
		if signed {
			return VBool{c.Cmp("bvsle", b, a)}
		}
		return VBool{c.Cmp("bvule", b, a)}
	}
	panic(unsupported("int binop " + op.String()))
}

// shift implements Go's << and >> (count >= width gives 0 / sign fill; negative count panics).
func (m *M) shift(p *path, x *ssa.BinOp, a, cnt *smt.Term) Value {
	c := m.c
	_, asigned, _ := intWidth(x.X.Type())
	_, csigned, _ := intWidth(x.Y.Type())
	if csigned {
		neg := c.Cmp("bvslt", cnt, c.BV(0, cnt.S))
		m.violate(p, "panic", "negative-shift", x, neg)
		p.g = c.And(p.g, c.Not(neg))
	}
	w := a.S
	var amt *smt.Term
	switch {
	case cnt.S == w:
		amt = cnt
	case cnt.S < w:
		amt = c.ZExt(int(w-cnt.S), cnt)
	default:
		big := c.Not(c.Cmp("bvult", cnt, c.BV(int64(w), cnt.S)))
		amt = c.Ite(big, c.BV(int64(w), w), c.Extract(int(w)-1, 0, cnt))
	}
	switch {
	case x.Op == token.SHL:
		return VInt{c.BinBV("bvshl", a, amt)}
	case asigned:
		return VInt{c.BinBV("bvashr", a, amt)}
	}
	return VInt{c.BinBV("bvlshr", a, amt)}
}

// exec executes one instruction; returns false when the path stops or was forked away.
func (m *M) exec(p *path, fr *Frame, instr ssa.Instruction, work *[]*path) bool {
	c := m.c
	blk := fr.Fn.Blocks[fr.Blk]
	switch x := instr.(type) {
	case *ssa.Alloc:
		key := fmt.Sprintf("%s@%d.%d%s", fr.ID, fr.Blk, fr.Idx, loopsSig(fr.Loops))
		t := m.elemType(x.Type())
		a := m.alloc(key, t)
		// each allocation key executes at most once per execution (keys include loop counters),
		// and memory defaults to the zero value, so no explicit zeroing is needed
		m.set(p, fr, x, m.addrSet(a))
	case *ssa.Store:
		s := m.get(p, fr, x.Addr).(*VSet)
		m.store(p, s, m.elemType(x.Addr.Type()), m.get(p, fr, x.Val), x, true)
	case *ssa.UnOp:
		switch x.Op {
		case token.MUL:
			s := m.get(p, fr, x.X).(*VSet)
			m.set(p, fr, x, m.load(p, s, x.Type(), x, true))
		case token.NOT:
			m.set(p, fr, x, VBool{c.Not(m.get(p, fr, x.X).(VBool).T)})
		case token.SUB:
			v := m.get(p, fr, x.X).(VInt)
			m.set(p, fr, x, VInt{c.BinBV("bvsub", c.BV(0, v.T.S), v.T)})
		case token.ARROW:
			m.recv(p, fr, x)
		default:
			panic(unsupported("unop " + x.Op.String()))
		}
	case *ssa.BinOp:
		a, b := m.get(p, fr, x.X), m.get(p, fr, x.Y)
		switch av := a.(type) {
		case VInt:
			bv := b.(VInt)
			if x.Op == token.SHL || x.Op == token.SHR {
				m.set(p, fr, x, m.shift(p, x, av.T, bv.T))
				break
			}
			m.set(p, fr, x, m.intBin(x.Op, x.X.Type(), av.T, bv.T))
		case VStr:
			bs := b.(VStr)
			switch x.Op {
			case token.ADD:
				m.set(p, fr, x, m.strConcat(av, bs))
			case token.EQL:
				m.set(p, fr, x, VBool{m.strEq(av, bs)})
			case token.NEQ:
				m.set(p, fr, x, VBool{c.Not(m.strEq(av, bs))})
			default:
				panic(unsupported("string comparison " + x.Op.String()))
			}
		default:
			eq := m.eqValues(a, b)
			switch x.Op {
			case token.EQL:
				m.set(p, fr, x, VBool{eq})
			case token.NEQ:
				m.set(p, fr, x, VBool{c.Not(eq)})
			default:
				panic(unsupported(fmt.Sprintf("binop %s on %T", x.Op, a)))
			}
		}
	case *ssa.FieldAddr:
		s := m.get(p, fr, x.X).(*VSet)
		st := m.elemType(x.X.Type()).Underlying().(*types.Struct)
		off := fieldOffset(st, x.Field)
		var alts []Alt
		for _, al := range s.Alts {
			switch a := al.C.(type) {
			case Addr:
				alts = append(alts, Alt{al.G, a + Addr(off)})
			case NilC:
				m.violate(p, "panic", "nil-deref", x, al.G)
				p.g = c.And(p.g, c.Not(al.G))
			}
		}
		m.set(p, fr, x, m.normSet(alts))
	case *ssa.Field:
		agg := m.get(p, fr, x.X).(VAgg)
		m.set(p, fr, x, agg[x.Field])
	case *ssa.Index:
		idx := m.get(p, fr, x.Index).(VInt).T
		if idx.S != 64 {
			idx = c.ZExt(int(64-idx.S), idx)
		}
		switch xv := m.get(p, fr, x.X).(type) {
		case VStr:
			m.set(p, fr, x, m.strIndex(p, x, xv, idx))
		case VAgg:
			oob := c.Not(c.Cmp("bvult", idx, c.BV(int64(len(xv)), 64)))
			m.violate(p, "panic", "index-out-of-range", x, oob)
			p.g = c.And(p.g, c.Not(oob))
			var res Value
			for j := len(xv) - 1; j >= 0; j-- {
				res = m.merge(c.Eq(idx, c.BV(int64(j), 64)), xv[j], res)
			}
			if res == nil {
				res = m.zero(x.Type())
			}
			m.set(p, fr, x, res)
		default:
			panic(unsupported(fmt.Sprintf("index on %T", xv)))
		}
	case *ssa.MakeMap:
		m.makeMap(p, fr, x)
	case *ssa.MapUpdate:
		m.mapUpdate(p, fr, x)
	case *ssa.Lookup:
		m.mapLookup(p, fr, x)
	case *ssa.Range:
		m.mapRange(p, fr, x)
	case *ssa.Next:
		m.mapNext(p, fr, x)
	case *ssa.IndexAddr:
		m.indexAddr(p, fr, x)
	case *ssa.Slice:
		m.sliceOp(p, fr, x)
	case *ssa.MakeSlice:
		capV := m.get(p, fr, x.Cap).(VInt)
		n, ok := constInt(capV)
		if !ok {
			// symbolic size: reserve MaxSlice cells and assert the bound
			n = int64(m.MaxSlice)
			over := c.Cmp("bvult", c.BV(n, 64), capV.T)
			if !c.And(p.g, over).IsFalse() {
				m.Viol = append(m.Viol, Violation{Kind: "bound", ID: "slice-capacity", Pos: m.pos(x), G: c.And(p.g, over)})
			}
			p.g = c.And(p.g, c.Not(over))
		}
		et := x.Type().Underlying().(*types.Slice).Elem()
		key := fmt.Sprintf("%s@%d.%d%s", fr.ID, fr.Blk, fr.Idx, loopsSig(fr.Loops))
		a := m.allocArray(key, et, int(n))
		m.set(p, fr, x, VSlice{m.addrSet(a), m.get(p, fr, x.Len).(VInt), capV})
	case *ssa.Convert:
		v := m.get(p, fr, x.X)
		if vi, ok := v.(VInt); ok {
			if w, _, ok := intWidth(x.Type()); ok {
				_, sgn, _ := intWidth(x.X.Type())
				switch {
				case w == vi.T.S:
					m.set(p, fr, x, vi)
				case w < vi.T.S:
					m.set(p, fr, x, VInt{c.Extract(int(w)-1, 0, vi.T)})
				case sgn:
					m.set(p, fr, x, VInt{c.SExt(int(w-vi.T.S), vi.T)})
				default:
					m.set(p, fr, x, VInt{c.ZExt(int(w-vi.T.S), vi.T)})
				}
				break
			}
		}
		if vi, ok := v.(VInt); ok {
			if b, ok := x.Type().Underlying().(*types.Basic); ok && b.Info()&types.IsString != 0 {
				_, sgn, _ := intWidth(x.X.Type())
				m.set(p, fr, x, m.runeToString(vi.T, sgn))
				break
			}
		}
		if vs, ok := v.(VStr); ok {
			if b, ok := x.Type().Underlying().(*types.Basic); ok && b.Info()&types.IsString != 0 {
				m.set(p, fr, x, vs)
				break
			}
		}
		panic(unsupported(fmt.Sprintf("convert %s -> %s", x.X.Type(), x.Type())))
	case *ssa.Extract:
		tup := m.get(p, fr, x.Tuple).(VTuple)
		m.set(p, fr, x, tup[x.Index])
	case *ssa.MakeClosure:
		var bind []Value
		for _, b := range x.Bindings {
			bind = append(bind, m.get(p, fr, b))
		}
		key := fmt.Sprintf("mc:%s@%d.%d%s", fr.ID, fr.Blk, fr.Idx, loopsSig(fr.Loops))
		m.set(p, fr, x, m.closSet(m.mkClosure(key, x.Fn.(*ssa.Function), bind)))
	case *ssa.MakeInterface:
		m.set(p, fr, x, &VIface{Alts: []IAlt{{c.T, x.X.Type(), m.get(p, fr, x.X)}}})
	case *ssa.TypeAssert:
		iv := m.get(p, fr, x.X).(*VIface)
		okT := c.F
		var res Value
		_, toIface := x.AssertedType.Underlying().(*types.Interface)
		for _, al := range iv.Alts {
			hit := false
			if al.Typ != nil {
				if toIface {
					hit = types.Implements(al.Typ, x.AssertedType.Underlying().(*types.Interface))
				} else {
					hit = types.Identical(al.Typ, x.AssertedType)
				}
			}
			if !hit {
				continue
			}
			okT = c.Or(okT, al.G)
			var v Value
			if toIface {
				v = &VIface{Alts: []IAlt{{c.T, al.Typ, al.Val}}}
			} else {
				v = al.Val
			}
			res = m.merge(al.G, v, res)
		}
		if res == nil {
			res = m.zero(x.AssertedType)
		}
		if x.CommaOk {
			m.set(p, fr, x, VTuple{res, VBool{okT}})
		} else {
			m.violate(p, "panic", "type-assertion", x, c.Not(okT))
			p.g = c.And(p.g, okT)
			m.set(p, fr, x, res)
		}
	case *ssa.ChangeType:
		m.set(p, fr, x, m.get(p, fr, x.X))
	case *ssa.ChangeInterface:
		m.set(p, fr, x, m.get(p, fr, x.X))
	case *ssa.MakeChan:
		key := fmt.Sprintf("%s@%d.%d%s", fr.ID, fr.Blk, fr.Idx, loopsSig(fr.Loops))
		et := x.Type().Underlying().(*types.Chan).Elem()
		a := m.alloc(key, chanType(et))
		m.chanElem[a] = et
		m.memSet(p, a, VBool{c.F})
		m.memSet(p, a+1, VInt{c.BV(0, 64)})
		m.memSet(p, a+2, m.get(p, fr, x.Size))
		if n, ok := constInt(m.get(p, fr, x.Size).(VInt)); !ok || n > 1 {
			m.chanMulti[a] = true // values are kept for one slot only
		}
		m.set(p, fr, x, m.addrSet(a))
	case *ssa.Phi:
		panic("phi reached directly")
	case *ssa.Jump:
		return m.jump(p, fr, blk, blk.Succs[0])
	case *ssa.If:
		cond := m.get(p, fr, x.Cond).(VBool).T
		if cond.IsTrue() {
			return m.jump(p, fr, blk, blk.Succs[0])
		}
		if cond.IsFalse() {
			return m.jump(p, fr, blk, blk.Succs[1])
		}
		q := p.fork(m, c.Not(cond))
		if m.jump(q, m.top(q.cfg), blk, blk.Succs[1]) {
			*work = append(*work, q)
		}
		p.g = c.And(p.g, cond)
		return m.jump(p, fr, blk, blk.Succs[0])
	case *ssa.Return:
		var res Value
		switch len(x.Results) {
		case 0:
		case 1:
			res = m.get(p, fr, x.Results[0])
		default:
			t := VTuple{}
			for _, r := range x.Results {
				t = append(t, m.get(p, fr, r))
			}
			res = t
		}
		return m.ret(p, fr, res)
	case *ssa.RunDefers:
		if len(fr.Defers) == 0 {
			break
		}
		d := fr.Defers[len(fr.Defers)-1]
		fr.Defers = fr.Defers[:len(fr.Defers)-1]
		return m.doCall(p, fr, d.Instr, &d, work)
	case *ssa.Defer:
		fr.NDefer++
		d := DeferRec{x, fr.NDefer}
		cc := x.Common()
		var args VTuple
		for _, a := range cc.Args {
			args = append(args, m.get(p, fr, a))
		}
		p.ov.regs[regKey{fr.ID + "#defargs", d}] = args
		if !cc.IsInvoke() {
			if _, ok := cc.Value.(*ssa.Builtin); !ok {
				p.ov.regs[regKey{fr.ID + "#deffn", d}] = m.get(p, fr, cc.Value)
			}
		} else {
			p.ov.regs[regKey{fr.ID + "#deffn", d}] = m.get(p, fr, cc.Value)
		}
		fr.Defers = append(fr.Defers, d)
	case *ssa.Go:
		return m.doCall(p, fr, x, nil, work)
	case *ssa.Call:
		return m.doCall(p, fr, x, nil, work)
	case *ssa.Panic:
		m.violate(p, "panic", "explicit", x, c.T)
		p.cfg.Status = stPanic
		return false
	case *ssa.Select:
		return m.sel(p, fr, x, work)
	case *ssa.Send:
		m.send(p, fr, x)
	case *ssa.DebugRef:
	default:
		panic(unsupported(fmt.Sprintf("instruction %T: %s (in %s)", instr, instr, fr.Fn)))
	}
	fr.Idx++
	return true
}

// chanType: channel object = closed flag, element count, capacity, one value slot
func chanType(elem types.Type) types.Type {
	return types.NewStruct([]*types.Var{
		types.NewVar(token.NoPos, nil, "closed", types.Typ[types.Bool]),
		types.NewVar(token.NoPos, nil, "count", types.Typ[types.Int]),
		types.NewVar(token.NoPos, nil, "cap", types.Typ[types.Int]),
		types.NewVar(token.NoPos, nil, "val", elem),
	}, nil)
}

// chanTake models the effect of a successful receive from the channels in s under guard g:
// returns (value, ok); a buffered element is consumed.
func (m *M) chanTake(p *path, s *VSet, g *smt.Term, et types.Type, instr ssa.Instruction) (Value, *smt.Term) {
	c := m.c
	var val Value = m.zero(et)
	okT := c.F
	n := len(leafTypes(et))
	for _, al := range s.Alts {
		a, isAddr := al.C.(Addr)
		if !isAddr {
			continue // Done() channels and nil: zero value, ok=false
		}
		cnt := m.memGet(p, a+1).(VInt).T
		has := c.And(al.G, c.Not(c.Eq(cnt, c.BV(0, 64))))
		if has.IsFalse() {
			continue
		}
		if m.chanMulti[a] {
			panic(unsupported("receive of a value from a channel with capacity > 1"))
		}
		leaves := make([]Value, n)
		for i := 0; i < n; i++ {
			leaves[i] = m.memGet(p, a+3+Addr(i))
		}
		pos := 0
		v := m.unflatten(et, leaves, &pos)
		val = m.merge(has, v, val)
		okT = c.Or(okT, has)
		take := c.And(g, has)
		m.memSet(p, a+1, VInt{c.Ite(take, c.BinBV("bvsub", cnt, c.BV(1, 64)), cnt)})
		m.record(p, a+1, true, false, instr)
	}
	return val, okT
}

func (m *M) send(p *path, fr *Frame, x *ssa.Send) {
	c := m.c
	s := m.get(p, fr, x.Chan).(*VSet)
	et := x.Chan.Type().Underlying().(*types.Chan).Elem()
	var leaves []Value
	m.flatten(et, m.get(p, fr, x.X), &leaves)
	for _, al := range s.Alts {
		a, ok := al.C.(Addr)
		if !ok {
			continue // nil channel: never enabled
		}
		closed := m.memGet(p, a).(VBool).T
		m.violate(p, "panic", "send-on-closed-chan", x, c.And(al.G, closed))
		cnt := m.memGet(p, a+1).(VInt).T
		m.memSet(p, a+1, VInt{c.Ite(al.G, c.BinBV("bvadd", cnt, c.BV(1, 64)), cnt)})
		m.record(p, a+1, true, false, x)
		if !m.chanMulti[a] {
			for i, lv := range leaves {
				m.memSet(p, a+3+Addr(i), m.merge(al.G, lv, m.memGet(p, a+3+Addr(i))))
			}
		}
	}
}

var ctxObjStruct = types.NewStruct([]*types.Var{
	types.NewVar(token.NoPos, nil, "cancelled", types.Typ[types.Bool]),
	types.NewVar(token.NoPos, nil, "parent", types.NewPointer(types.Typ[types.Int])),
	types.NewVar(token.NoPos, nil, "envArmed", types.Typ[types.Bool]),
}, nil)

func (m *M) deferArgs(p *path, fr *Frame, d *DeferRec) VTuple {
	key := regKey{fr.ID + "#defargs", *d}
	if v, ok := p.ov.regs[key]; ok {
		return v.(VTuple)
	}
	v, _ := p.base[key].(VTuple)
	return v
}
func (m *M) deferFn(p *path, fr *Frame, d *DeferRec) Value {
	key := regKey{fr.ID + "#deffn", *d}
	if v, ok := p.ov.regs[key]; ok {
		return v
	}
	return p.base[key]
}

// ret pops the frame and delivers the result.
func (m *M) ret(p *path, fr *Frame, res Value) bool {
	p.cfg.Frames = p.cfg.Frames[:len(p.cfg.Frames)-1]
	if fr.Ghost {
		p.ghost--
	}
	if len(p.cfg.Frames) == 0 {
		p.cfg.Status = stDone
		return false
	}
	par := m.top(p.cfg)
	if fr.IsDefer {
		// stay on the parent's RunDefers instruction
		return true
	}
	if fr.CallSite != nil && res != nil {
		m.set(p, par, fr.CallSite, res)
	}
	par.Idx++
	return true
}

func (m *M) pushFrame(p *path, fr *Frame, fn *ssa.Function, bind []Value, args []Value, site ssa.Value, isDefer bool) {
	if fn.Blocks == nil {
		panic(unsupported("call to function without body: " + fn.String()))
	}
	id := fmt.Sprintf("%s/%s@%d.%d%s", fr.ID, fn.Name(), fr.Blk, fr.Idx, loopsSig(fr.Loops))
	if len(bind) > 0 {
		id += "#b" + bindSig(bind)
	}
	if isDefer {
		id += fmt.Sprintf("#d%d", len(fr.Defers))
	}
	nf := &Frame{Fn: fn, ID: id, Loops: map[int]int{}, CallSite: site, Bind: bind, IsDefer: isDefer}
	m.noteFunc(fn)
	for i, prm := range fn.Params {
		m.set(p, nf, prm, args[i])
	}
	p.cfg.Frames = append(p.cfg.Frames, nf)
}

// doCall handles Call, Go and deferred calls.
func (m *M) doCall(p *path, fr *Frame, ci ssa.CallInstruction, d *DeferRec, work *[]*path) bool {
	cc := ci.Common()
	var args []Value
	if d != nil {
		args = m.deferArgs(p, fr, d)
	} else {
		for _, a := range cc.Args {
			args = append(args, m.get(p, fr, a))
		}
	}
	_, isGo := ci.(*ssa.Go)
	_ = ci.Value()
	isDefer := d != nil

	if cc.IsInvoke() {
		var recv Value
		if d != nil {
			recv = m.deferFn(p, fr, d)
		} else {
			recv = m.get(p, fr, cc.Value)
		}
		if isContext(cc.Value.Type()) {
			return m.ctxMethod(p, fr, ci, cc.Method.Name(), recv.(*VIface), isDefer)
		}
		iv := recv.(*VIface)
		return m.forkIface(p, fr, ci, iv, args, isGo, isDefer, work)
	}
	if bi, ok := cc.Value.(*ssa.Builtin); ok {
		return m.builtin(p, fr, ci, bi.Name(), args, isDefer)
	}
	if fn := cc.StaticCallee(); fn != nil {
		var bind []Value
		if mc, ok := cc.Value.(*ssa.MakeClosure); ok {
			cl := m.get(p, fr, mc).(*VSet).Alts[0].C.(*Closure)
			bind = cl.Bindings
		}
		return m.callFn(p, fr, ci, fn, bind, args, isGo, isDefer, work)
	}
	// dynamic call through a function value
	var fv Value
	if d != nil {
		fv = m.deferFn(p, fr, d)
	} else {
		fv = m.get(p, fr, cc.Value)
	}
	fs := fv.(*VSet)
	var live []Alt
	for _, al := range fs.Alts {
		if _, isNil := al.C.(NilC); isNil {
			m.violate(p, "panic", "nil-func-call", ci, al.G)
			continue
		}
		if c := m.c.And(p.g, al.G); !c.IsFalse() {
			live = append(live, al)
		}
	}
	if len(live) == 0 {
		p.g = m.c.F
		return false
	}
	for i, al := range live {
		q := p
		if i < len(live)-1 {
			q = p.fork(m, al.G)
		} else {
			p.g = m.c.And(p.g, al.G)
		}
		qfr := m.top(q.cfg)
		cl := al.C.(*Closure)
		ok := true
		if cl.Intr != "" {
			ok = m.intrClosure(q, qfr, ci, cl, isDefer)
		} else {
			ok = m.callFn(q, qfr, ci, cl.Fn, cl.Bindings, args, isGo, isDefer, work)
		}
		if q != p {
			if ok {
				*work = append(*work, q)
			} else if q.cfg.Status != stRun {
				// ended immediately; keep as result via work processing
				*work = append(*work, q)
			}
		} else {
			return ok
		}
	}
	return true
}

func (m *M) forkIface(p *path, fr *Frame, ci ssa.CallInstruction, iv *VIface, args []Value, isGo, isDefer bool, work *[]*path) bool {
	cc := ci.Common()
	var live []IAlt
	for _, al := range iv.Alts {
		if al.Typ == nil {
			m.violate(p, "panic", "nil-iface-call", ci, al.G)
			continue
		}
		if !m.c.And(p.g, al.G).IsFalse() {
			live = append(live, al)
		}
	}
	if len(live) == 0 {
		p.g = m.c.F
		return false
	}
	for i, al := range live {
		q := p
		if i < len(live)-1 {
			q = p.fork(m, al.G)
		} else {
			p.g = m.c.And(p.g, al.G)
		}
		qfr := m.top(q.cfg)
		sel := m.prog.MethodSets.MethodSet(al.Typ).Lookup(cc.Method.Pkg(), cc.Method.Name())
		if sel == nil {
			panic(unsupported(fmt.Sprintf("method %s not found on %s", cc.Method.Name(), al.Typ)))
		}
		fn := m.prog.MethodValue(sel)
		ok := m.callFn(q, qfr, ci, fn, nil, append([]Value{al.Val}, args...), isGo, isDefer, work)
		if q != p {
			*work = append(*work, q)
			_ = ok
		} else {
			return ok
		}
	}
	return true
}

// callFn calls a concrete function (intrinsic or interpreted).
func (m *M) callFn(p *path, fr *Frame, ci ssa.CallInstruction, fn *ssa.Function, bind, args []Value, isGo, isDefer bool, work *[]*path) bool {
	if isGo {
		m.spawn(p, fr, ci, fn, bind, args, fn.Name())
		fr.Idx++
		return true
	}
	if handled, cont := m.intrinsic(p, fr, ci, fn, args, isDefer, work); handled {
		if !strings.HasSuffix(fnPkg(fn), "/vrt") {
			m.stubs[fn.String()] = true
		}
		return cont
	}
	m.pushFrame(p, fr, fn, bind, args, ci.Value(), isDefer)
	return true
}

func (m *M) spawn(p *path, fr *Frame, ci ssa.Instruction, fn *ssa.Function, bind, args []Value, name string) {
	m.spawnGated(p, fr, ci, fn, bind, args, name, 0)
}

func (m *M) spawnGated(p *path, fr *Frame, ci ssa.Instruction, fn *ssa.Function, bind, args []Value, name string, gate Addr) {
	key := fmt.Sprintf("%s@%d.%d%s", fr.ID, fr.Blk, fr.Idx, loopsSig(fr.Loops))
	th := m.newThread(key, name)
	m.threads[th].Parent = p.cfg.Th
	m.threads[th].Site = m.pos(ci)
	if p.cfg.NSpawn < m.threads[th].ChildIdx {
		m.threads[th].ChildIdx = p.cfg.NSpawn
	}
	nf := &Frame{Fn: fn, ID: fmt.Sprintf("T%d:%s", th, fn.Name()), Loops: map[int]int{}, Bind: bind}
	m.noteFunc(fn)
	for i, prm := range fn.Params {
		m.set(p, nf, prm, args[i])
	}
	if fn.Blocks == nil {
		panic(unsupported("go of function without body " + fn.String()))
	}
	for _, b := range bind {
		m.publish(p, b, 0)
	}
	for _, a := range args {
		m.publish(p, a, 0)
	}
	p.spawns = append(p.spawns, &Config{Th: th, Frames: []*Frame{nf}, Status: stStart, Gate: gate})
	p.cfg.Spawned = true
	p.cfg.NSpawn++
	if th < 64 {
		p.cfg.SpawnMask |= 1 << uint(th)
	}
}

// advance past an intrinsic call, delivering its result.
func (m *M) done(p *path, fr *Frame, ci ssa.CallInstruction, isDefer bool, res Value) bool {
	if isDefer {
		return true // stay on RunDefers
	}
	if v := ci.Value(); v != nil && res != nil {
		m.set(p, fr, v, res)
	}
	fr.Idx++
	return true
}

func (m *M) builtin(p *path, fr *Frame, ci ssa.CallInstruction, name string, args []Value, isDefer bool) bool {
	c := m.c
	switch name {
	case "close":
		s := args[0].(*VSet)
		for _, al := range s.Alts {
			switch a := al.C.(type) {
			case NilC:
				m.violate(p, "panic", "close-nil-chan", ci, al.G)
			case Addr:
				closed := m.memGet(p, a).(VBool).T
				m.violate(p, "panic", "close-closed-chan", ci, c.And(al.G, closed))
				m.memSet(p, a, VBool{c.Or(closed, al.G)})
				m.record(p, a, true, false, ci)
			}
		}
		return m.done(p, fr, ci, isDefer, nil)
	case "delete":
		m.mapDelete(p, ci, args[0].(*VSet), args[1])
		return m.done(p, fr, ci, isDefer, nil)
	case "len":
		switch v := args[0].(type) {
		case *VSet:
			return m.done(p, fr, ci, isDefer, m.mapLen(p, ci, v))
		case VSlice:
			return m.done(p, fr, ci, isDefer, v.Len)
		case VStr:
			return m.done(p, fr, ci, isDefer, VInt{v.Len})
		}
	case "cap":
		if v, ok := args[0].(VSlice); ok {
			return m.done(p, fr, ci, isDefer, v.Cap)
		}
	case "copy":
		return m.done(p, fr, ci, isDefer, m.copyOp(p, ci, args[0].(VSlice), args[1].(VSlice)))
	case "append":
		return m.done(p, fr, ci, isDefer, m.appendOp(p, fr, ci, args[0].(VSlice), args[1].(VSlice)))
	}
	panic(unsupported("builtin " + name))
}

func constInt(v VInt) (int64, bool) {
	if v.T.IsConst() {
		return v.T.Signed(), true
	}
	return 0, false
}

// allocArray reserves n elements of type et and remembers the element count of the block.
func (m *M) allocArray(key string, et types.Type, n int) Addr {
	if n == 0 {
		n = 1
	}
	key = fmt.Sprintf("%s#%d", key, n) // the same site may run with different sizes on different paths
	a := m.alloc(key, types.NewArray(et, int64(n)))
	m.arrLen[a] = n
	return a
}

func (m *M) indexAddr(p *path, fr *Frame, x *ssa.IndexAddr) {
	c := m.c
	idx := m.get(p, fr, x.Index).(VInt)
	if idx.T.S != 64 {
		idx = VInt{c.ZExt(int(64-idx.T.S), idx.T)}
	}
	var base *VSet
	var et types.Type
	var length *smt.Term
	var maxN int = -1
	switch xt := x.X.Type().Underlying().(type) {
	case *types.Pointer: // *[N]T
		at := xt.Elem().Underlying().(*types.Array)
		et = at.Elem()
		base = m.get(p, fr, x.X).(*VSet)
		length = c.BV(at.Len(), 64)
		maxN = int(at.Len())
	case *types.Slice:
		sv := m.get(p, fr, x.X).(VSlice)
		et = xt.Elem()
		base = sv.Ptr
		length = sv.Len.T
	default:
		panic(unsupported("IndexAddr on " + x.X.Type().String()))
	}
	el := len(leafTypes(et))
	oob := c.Not(c.Cmp("bvult", idx.T, length))
	m.violate(p, "panic", "index-out-of-range", x, oob)
	p.g = c.And(p.g, c.Not(oob))
	var alts []Alt
	for _, al := range base.Alts {
		a, ok := al.C.(Addr)
		if !ok {
			continue // nil slice: length 0, already out of range
		}
		n := maxN
		if n < 0 {
			n = m.arrLen[a]
		}
		if i, ok := constInt(idx); ok {
			// never form an address outside the allocated block (the bounds-check condition
			// above already accounts for the panic; such a path is semantically dead)
			if i >= 0 && int(i) < n {
				alts = append(alts, Alt{al.G, a + Addr(int(i)*el)})
			}
			continue
		}
		for j := 0; j < n; j++ {
			alts = append(alts, Alt{c.And(al.G, c.Eq(idx.T, c.BV(int64(j), 64))), a + Addr(j*el)})
		}
	}
	m.set(p, fr, x, m.normSet(alts))
}

func (m *M) sliceOp(p *path, fr *Frame, x *ssa.Slice) {
	c := m.c
	getI := func(v ssa.Value, def *smt.Term) *smt.Term {
		if v == nil {
			return def
		}
		return m.get(p, fr, v).(VInt).T
	}
	if sv, ok := m.get(p, fr, x.X).(VStr); ok {
		lo, hi := getI(x.Low, c.BV(0, 64)), getI(x.High, sv.Len)
		m.set(p, fr, x, m.strSlice(p, x, sv, lo, hi))
		return
	}
	switch xt := x.X.Type().Underlying().(type) {
	case *types.Pointer: // slicing an array: p[lo:hi]
		at := xt.Elem().Underlying().(*types.Array)
		base := m.get(p, fr, x.X).(*VSet)
		n := c.BV(at.Len(), 64)
		lo, hi := getI(x.Low, c.BV(0, 64)), getI(x.High, n)
		lov, ok := constInt(VInt{lo})
		if !ok {
			panic(unsupported("array slice with symbolic low bound"))
		}
		el := len(leafTypes(at.Elem()))
		var alts []Alt
		for _, al := range base.Alts {
			if a, ok := al.C.(Addr); ok {
				m.arrLen[a+Addr(int(lov)*el)] = int(at.Len()) - int(lov)
				alts = append(alts, Alt{al.G, a + Addr(int(lov)*el)})
			} else {
				alts = append(alts, al)
			}
		}
		m.set(p, fr, x, VSlice{m.normSet(alts), VInt{c.BinBV("bvsub", hi, lo)}, VInt{c.BinBV("bvsub", n, lo)}})
	case *types.Slice:
		sv := m.get(p, fr, x.X).(VSlice)
		lo, hi := getI(x.Low, c.BV(0, 64)), getI(x.High, sv.Len.T)
		bad := c.Or(c.Cmp("bvult", sv.Cap.T, hi), c.Cmp("bvult", hi, lo))
		m.violate(p, "panic", "slice-bounds", x, bad)
		p.g = c.And(p.g, c.Not(bad))
		lov, ok := constInt(VInt{lo})
		if !ok {
			panic(unsupported("slice with symbolic low bound"))
		}
		el := len(leafTypes(xt.Elem()))
		var alts []Alt
		for _, al := range sv.Ptr.Alts {
			if a, ok := al.C.(Addr); ok {
				if lov != 0 {
					m.arrLen[a+Addr(int(lov)*el)] = m.arrLen[a] - int(lov)
				}
				alts = append(alts, Alt{al.G, a + Addr(int(lov)*el)})
			} else {
				alts = append(alts, al)
			}
		}
		m.set(p, fr, x, VSlice{m.normSet(alts), VInt{c.BinBV("bvsub", hi, lo)}, VInt{c.BinBV("bvsub", sv.Cap.T, lo)}})
	default:
		panic(unsupported("slice of " + x.X.Type().String()))
	}
}

// copyOp copies min(len(dst),len(src)) single-leaf elements; lengths may be symbolic.
func (m *M) copyOp(p *path, ci ssa.CallInstruction, dst, src VSlice) VInt {
	c := m.c
	n := c.Ite(c.Cmp("bvult", dst.Len.T, src.Len.T), dst.Len.T, src.Len.T)
	for _, da := range dst.Ptr.Alts {
		d, ok := da.C.(Addr)
		if !ok {
			continue
		}
		for _, sa := range src.Ptr.Alts {
			s, ok := sa.C.(Addr)
			if !ok {
				continue
			}
			lim := m.arrLen[d]
			if m.arrLen[s] < lim {
				lim = m.arrLen[s]
			}
			// read all first (memmove semantics), then write
			vals := make([]Value, lim)
			for j := 0; j < lim; j++ {
				vals[j] = m.memGet(p, s+Addr(j))
			}
			for j := 0; j < lim; j++ {
				g := c.And(da.G, sa.G, c.Cmp("bvult", c.BV(int64(j), 64), n))
				if g.IsFalse() {
					break
				}
				m.memSet(p, d+Addr(j), m.merge(g, vals[j], m.memGet(p, d+Addr(j))))
			}
		}
	}
	return VInt{n}
}

// appendSym: append to a slice of symbolic length. The result always lives in a fresh array of
// AppendCap cells (prototype approximation: aliasing with the old backing array is not modelled).
func (m *M) appendSym(p *path, fr *Frame, ci ssa.CallInstruction, s, t VSlice, lt int) VSlice {
	c := m.c
	et := ci.Value().Type().Underlying().(*types.Slice).Elem()
	el := len(leafTypes(et))
	if el != 1 {
		panic(unsupported("symbolic append of multi-leaf elements"))
	}
	capN := m.AppendCap
	key := fmt.Sprintf("appendsym:%s@%d.%d%s", fr.ID, fr.Blk, fr.Idx, loopsSig(fr.Loops))
	a := m.allocArray(key, et, capN)
	over := c.Cmp("bvult", c.BV(int64(capN-lt), 64), s.Len.T)
	if !c.And(p.g, over).IsFalse() {
		m.Viol = append(m.Viol, Violation{Kind: "bound", ID: "append-capacity", Pos: m.pos(ci), G: c.And(p.g, over)})
	}
	p.g = c.And(p.g, c.Not(over))
	// copy the old elements
	for j := 0; j < capN; j++ {
		inOld := c.Cmp("bvult", c.BV(int64(j), 64), s.Len.T)
		if inOld.IsFalse() {
			break
		}
		var v Value = m.zero(et)
		for _, al := range s.Ptr.Alts {
			if sa, ok := al.C.(Addr); ok && j < m.arrLen[sa] {
				v = m.merge(al.G, m.memGet(p, sa+Addr(j)), v)
			}
		}
		m.memSet(p, a+Addr(j), m.merge(inOld, v, m.memGet(p, a+Addr(j))))
	}
	// the new elements go to positions len(s)+i
	for i := 0; i < lt; i++ {
		var nv Value = m.zero(et)
		for _, al := range t.Ptr.Alts {
			if ta, ok := al.C.(Addr); ok {
				nv = m.merge(al.G, m.memGet(p, ta+Addr(i)), nv)
			}
		}
		for j := i; j < capN; j++ {
			at := c.Eq(s.Len.T, c.BV(int64(j-i), 64))
			if at.IsFalse() {
				continue
			}
			m.memSet(p, a+Addr(j), m.merge(at, nv, m.memGet(p, a+Addr(j))))
		}
	}
	return VSlice{m.addrSet(a), VInt{c.BinBV("bvadd", s.Len.T, c.BV(int64(lt), 64))}, VInt{c.BV(int64(capN), 64)}}
}

// appendOp: concrete lengths only in the prototype.
func (m *M) appendOp(p *path, fr *Frame, ci ssa.CallInstruction, s, t VSlice) VSlice {
	c := m.c
	ls, ok1 := constInt(s.Len)
	lt, ok2 := constInt(t.Len)
	cs, ok3 := constInt(s.Cap)
	if !ok2 {
		panic(unsupported("append of a slice with symbolic length"))
	}
	if !ok1 || !ok3 {
		return m.appendSym(p, fr, ci, s, t, int(lt))
	}
	if lt == 0 {
		return s
	}
	et := ci.Value().Type().Underlying().(*types.Slice).Elem()
	el := len(leafTypes(et))
	read := func(sl VSlice, i int) []Value {
		ptr := &VSet{}
		for _, al := range sl.Ptr.Alts {
			if a, ok := al.C.(Addr); ok {
				ptr.Alts = append(ptr.Alts, Alt{al.G, a + Addr(i*el)})
			}
		}
		var out []Value
		m.flatten(et, m.load(p, ptr, et, ci, true), &out)
		return out
	}
	var dst *VSet
	newCap := cs
	if ls+lt <= cs {
		dst = s.Ptr
	} else {
		newCap = ls + lt
		key := fmt.Sprintf("append:%s@%d.%d%s", fr.ID, fr.Blk, fr.Idx, loopsSig(fr.Loops))
		a := m.allocArray(key, et, int(newCap))
		dst = m.addrSet(a)
		for i := 0; i < int(ls); i++ {
			for j, lv := range read(s, i) {
				m.memSet(p, a+Addr(i*el+j), lv)
			}
		}
	}
	for i := 0; i < int(lt); i++ {
		vals := read(t, i)
		for _, al := range dst.Alts {
			if a, ok := al.C.(Addr); ok {
				for j, lv := range vals {
					ad := a + Addr((int(ls)+i)*el+j)
					m.memSet(p, ad, m.merge(al.G, lv, m.memGet(p, ad)))
					m.record(p, ad, true, true, ci)
				}
			}
		}
	}
	return VSlice{dst, VInt{c.BV(ls+lt, 64)}, VInt{c.BV(newCap, 64)}}
}

func (m *M) recv(p *path, fr *Frame, x *ssa.UnOp) {
	s := m.get(p, fr, x.X).(*VSet)
	m.recordChan(p, s, x)
	et := x.X.Type().Underlying().(*types.Chan).Elem()
	val, okT := m.chanTake(p, s, m.c.T, et, x)
	if x.CommaOk {
		m.set(p, fr, x, VTuple{val, VBool{okT}})
	} else {
		m.set(p, fr, x, val)
	}
}

func (m *M) recordChan(p *path, s *VSet, instr ssa.Instruction) {
	for _, al := range s.Alts {
		switch a := al.C.(type) {
		case Addr:
			m.record(p, a, false, false, instr)
		case DoneChan:
			m.recordCtx(p, a.Ctx, instr, 0)
		}
	}
}

func (m *M) recordCtx(p *path, a Addr, instr ssa.Instruction, depth int) {
	if depth > 6 {
		return
	}
	m.record(p, a, false, false, instr)
	if par, ok := m.memGet(p, a+1).(*VSet); ok {
		for _, al := range par.Alts {
			if pa, ok := al.C.(Addr); ok {
				m.recordCtx(p, pa, instr, depth+1)
			}
		}
	}
}

func (m *M) sel(p *path, fr *Frame, x *ssa.Select, work *[]*path) bool {
	c := m.c
	n := len(x.States)
	var ready []*smt.Term
	for _, st := range x.States {
		cs := m.get(p, fr, st.Chan).(*VSet)
		m.recordChan(p, cs, x)
		ready = append(ready, m.chanReady(p, cs, st.Dir))
	}
	key := fmt.Sprintf("sel!%s@%d.%d%s", fr.ID, fr.Blk, fr.Idx, loopsSig(fr.Loops))
	ch := c.Var(key, 8)
	m.Nondet[key] = ch
	mk := func(q *path, idx int) Value {
		t := VTuple{VInt{c.BV(int64(idx), 64)}, VBool{c.F}}
		tt := x.Type().(*types.Tuple)
		for i := 2; i < tt.Len(); i++ {
			t = append(t, m.zero(tt.At(i).Type()))
		}
		// the chosen receive takes a buffered value, if there is one
		ri := 2
		for i, st := range x.States {
			if st.Dir != types.RecvOnly {
				continue
			}
			if i == idx {
				qfr := m.top(q.cfg)
				cs := m.get(q, qfr, st.Chan).(*VSet)
				et := st.Chan.Type().Underlying().(*types.Chan).Elem()
				v, ok := m.chanTake(q, cs, c.T, et, x)
				if ri < len(t) {
					t[ri] = v
				}
				t[1] = VBool{ok}
			}
			ri++
		}
		return t
	}
	type opt struct {
		g   *smt.Term
		idx int
	}
	var opts []opt
	var anyReady []*smt.Term
	for i := 0; i < n; i++ {
		g := c.And(ready[i], c.Eq(ch, c.BV(int64(i), 8)))
		anyReady = append(anyReady, ready[i])
		if !c.And(p.g, g).IsFalse() {
			opts = append(opts, opt{g, i})
		}
	}
	if !x.Blocking {
		g := c.Not(c.Or(anyReady...))
		if !c.And(p.g, g).IsFalse() {
			opts = append(opts, opt{g, -1})
		}
		// when something is ready the choice variable must name a ready case
		m.Assumes = append(m.Assumes, c.Implies(c.And(p.g, c.Or(anyReady...)), c.Or(func() []*smt.Term {
			var xs []*smt.Term
			for i := 0; i < n; i++ {
				xs = append(xs, c.And(ready[i], c.Eq(ch, c.BV(int64(i), 8))))
			}
			return xs
		}()...)))
	} else {
		var xs []*smt.Term
		for i := 0; i < n; i++ {
			xs = append(xs, c.And(ready[i], c.Eq(ch, c.BV(int64(i), 8))))
		}
		m.Assumes = append(m.Assumes, c.Implies(p.g, c.Or(xs...)))
	}
	if len(opts) == 0 {
		p.g = c.F
		return false
	}
	for i, o := range opts {
		q := p
		if i < len(opts)-1 {
			q = p.fork(m, o.g)
		} else {
			p.g = c.And(p.g, o.g)
		}
		qfr := m.top(q.cfg)
		m.set(q, qfr, x, mk(q, o.idx))
		qfr.Idx++
		if q != p {
			*work = append(*work, q)
		}
	}
	return true
}

func sortedKeys(mm map[string]*smt.Term) []string {
	var ks []string
	for k := range mm {
		ks = append(ks, k)
	}
	sort.Strings(ks)
	return ks
}

// bindSig identifies closure bindings that are single concrete addresses (the common case).
func bindSig(bind []Value) string {
	var sb strings.Builder
	for _, b := range bind {
		if s, ok := b.(*VSet); ok && len(s.Alts) == 1 {
			sb.WriteString(altKey(s.Alts[0].C))
		} else {
			sb.WriteString("?")
		}
		sb.WriteString(".")
	}
	return sb.String()
}

func (m *M) show(v Value) string {
	switch x := v.(type) {
	case VInt:
		if x.T.IsConst() {
			return fmt.Sprintf("int(%d)", x.T.Signed())
		}
		return "int(sym:" + x.T.Op + ")"
	case VBool:
		if x.T.IsConst() {
			return fmt.Sprintf("bool(%v)", x.T.IsTrue())
		}
		return "bool(sym)"
	case *VSet:
		var sb strings.Builder
		sb.WriteString("{")
		for _, a := range x.Alts {
			sb.WriteString(altKey(a.C))
			if !a.G.IsTrue() {
				sb.WriteString("?")
			}
			sb.WriteString(" ")
		}
		return sb.String() + "}"
	case VSlice:
		return "slice(" + m.show(x.Ptr) + " len=" + m.show(x.Len) + ")"
	case *VIface:
		return fmt.Sprintf("iface(%d alts)", len(x.Alts))
	case VTuple:
		return fmt.Sprintf("tuple(%d)", len(x))
	}
	return fmt.Sprintf("%T", v)
}
