package eng

import (
	"fmt"
	"go/types"

	"gobmc/smt"

	"golang.org/x/tools/go/ssa"
)

// VStr is a string with a (possibly symbolic) length and symbolic bytes; B has the capacity of
// the longest possible content, bytes at positions >= Len are irrelevant.
type VStr struct {
	Len *smt.Term   // 64-bit
	B   []*smt.Term // 8-bit each
}

func (m *M) strConst(s string) VStr {
	v := VStr{Len: m.c.BV(int64(len(s)), 64)}
	for i := 0; i < len(s); i++ {
		v.B = append(v.B, m.c.BV(int64(s[i]), 8))
	}
	return v
}

func (v VStr) concrete() (string, bool) {
	if !v.Len.IsConst() {
		return "", false
	}
	n := int(v.Len.Signed())
	b := make([]byte, n)
	for i := 0; i < n; i++ {
		if i >= len(v.B) || !v.B[i].IsConst() {
			return "", false
		}
		b[i] = byte(v.B[i].Val.Int64())
	}
	return string(b), true
}

func (m *M) strByte(v VStr, j int) *smt.Term {
	if j < len(v.B) {
		return v.B[j]
	}
	return m.c.BV(0, 8)
}

func (m *M) strMerge(g *smt.Term, a, b VStr) VStr {
	n := len(a.B)
	if len(b.B) > n {
		n = len(b.B)
	}
	out := VStr{Len: m.c.Ite(g, a.Len, b.Len)}
	for j := 0; j < n; j++ {
		out.B = append(out.B, m.c.Ite(g, m.strByte(a, j), m.strByte(b, j)))
	}
	return out
}

func (m *M) strEq(a, b VStr) *smt.Term {
	c := m.c
	n := len(a.B)
	if len(b.B) < n {
		n = len(b.B)
	}
	cs := []*smt.Term{c.Eq(a.Len, b.Len)}
	// lengths beyond the shorter capacity cannot be equal unless the length fits
	cs = append(cs, c.Cmp("bvule", a.Len, c.BV(int64(n), 64)))
	for j := 0; j < n; j++ {
		inside := c.Cmp("bvult", c.BV(int64(j), 64), a.Len)
		cs = append(cs, c.Implies(inside, c.Eq(a.B[j], b.B[j])))
	}
	return c.And(cs...)
}

func (m *M) strConcat(a, b VStr) VStr {
	c := m.c
	if la, ok := constInt(VInt{a.Len}); ok {
		out := VStr{Len: c.BinBV("bvadd", a.Len, b.Len)}
		out.B = append(out.B, a.B[:la]...)
		out.B = append(out.B, b.B...)
		return out
	}
	capN := len(a.B) + len(b.B)
	out := VStr{Len: c.BinBV("bvadd", a.Len, b.Len)}
	for j := 0; j < capN; j++ {
		// byte j = a[j] if j < la else b[j-la]
		var v *smt.Term = c.BV(0, 8)
		for k := 0; k <= len(a.B) && k <= j; k++ {
			v = c.Ite(c.Eq(a.Len, c.BV(int64(k), 64)), m.strByte(b, j-k), v)
		}
		if j < len(a.B) {
			v = c.Ite(c.Cmp("bvult", c.BV(int64(j), 64), a.Len), a.B[j], v)
		}
		out.B = append(out.B, v)
	}
	return out
}

// strIndex: s[i] with Go's bounds check.
func (m *M) strIndex(p *path, instr ssa.Instruction, s VStr, idx *smt.Term) Value {
	c := m.c
	oob := c.Not(c.Cmp("bvult", idx, s.Len))
	m.violate(p, "panic", "index-out-of-range", instr, oob)
	p.g = c.And(p.g, c.Not(oob))
	if i, ok := constInt(VInt{idx}); ok {
		return VInt{m.strByte(s, int(i))}
	}
	var v *smt.Term = c.BV(0, 8)
	for j := len(s.B) - 1; j >= 0; j-- {
		v = c.Ite(c.Eq(idx, c.BV(int64(j), 64)), s.B[j], v)
	}
	return VInt{v}
}

// strSlice: s[lo:hi].
func (m *M) strSlice(p *path, instr ssa.Instruction, s VStr, lo, hi *smt.Term) VStr {
	c := m.c
	bad := c.Or(c.Cmp("bvult", s.Len, hi), c.Cmp("bvult", hi, lo))
	m.violate(p, "panic", "slice-bounds", instr, bad)
	p.g = c.And(p.g, c.Not(bad))
	out := VStr{Len: c.BinBV("bvsub", hi, lo)}
	if l, ok := constInt(VInt{lo}); ok {
		for j := int(l); j < len(s.B); j++ {
			out.B = append(out.B, s.B[j])
		}
		return out
	}
	for j := 0; j < len(s.B); j++ {
		var v *smt.Term = c.BV(0, 8)
		for k := 0; k+j < len(s.B); k++ {
			v = c.Ite(c.Eq(lo, c.BV(int64(k), 64)), s.B[k+j], v)
		}
		out.B = append(out.B, v)
	}
	return out
}

// runeToString: string(r) for an integer r (UTF-8 encoding, U+FFFD for invalid code points).
func (m *M) runeToString(v *smt.Term, signed bool) VStr {
	c := m.c
	w := v.S
	var r *smt.Term
	switch {
	case w == 32:
		r = v
	case w < 32:
		if signed {
			r = c.SExt(int(32-w), v)
		} else {
			r = c.ZExt(int(32-w), v)
		}
	default:
		// wider than 32 bits: values outside int32 are invalid anyway
		fits := c.Eq(c.SExt(int(w-32), c.Extract(31, 0, v)), v)
		r = c.Ite(fits, c.Extract(31, 0, v), c.BV(-1, 32))
	}
	k := func(x int64) *smt.Term { return c.BV(x, 32) }
	b8 := func(t *smt.Term) *smt.Term { return c.Extract(7, 0, t) }
	shr := func(t *smt.Term, n int64) *smt.Term { return c.BinBV("bvlshr", t, k(n)) }
	and := func(t *smt.Term, x int64) *smt.Term { return c.BinBV("bvand", t, k(x)) }
	or := func(t *smt.Term, x int64) *smt.Term { return c.BinBV("bvor", t, k(x)) }
	neg := c.Cmp("bvslt", r, k(0))
	surr := c.And(c.Cmp("bvule", k(0xD800), r), c.Cmp("bvule", r, k(0xDFFF)))
	big := c.Cmp("bvult", k(0x10FFFF), r)
	invalid := c.Or(neg, surr, big)
	r = c.Ite(invalid, k(0xFFFD), r)
	is1 := c.Cmp("bvult", r, k(0x80))
	is2 := c.Cmp("bvult", r, k(0x800))
	is3 := c.Cmp("bvult", r, k(0x10000))
	ln := c.Ite(is1, c.BV(1, 64), c.Ite(is2, c.BV(2, 64), c.Ite(is3, c.BV(3, 64), c.BV(4, 64))))
	b0 := c.Ite(is1, b8(r), c.Ite(is2, b8(or(shr(r, 6), 0xC0)), c.Ite(is3, b8(or(shr(r, 12), 0xE0)), b8(or(shr(r, 18), 0xF0)))))
	b1 := c.Ite(is2, b8(or(and(r, 0x3F), 0x80)), c.Ite(is3, b8(or(and(shr(r, 6), 0x3F), 0x80)), b8(or(and(shr(r, 12), 0x3F), 0x80))))
	b2 := c.Ite(is3, b8(or(and(r, 0x3F), 0x80)), b8(or(and(shr(r, 6), 0x3F), 0x80)))
	b3 := b8(or(and(r, 0x3F), 0x80))
	out := VStr{Len: ln, B: []*smt.Term{b0, b1, b2, b3}}
	// trim capacity when the length is bounded by the source width
	if w <= 8 && !signed {
		out.B = out.B[:2]
	}
	if l, ok := constInt(VInt{ln}); ok {
		out.B = out.B[:l]
	}
	return out
}

// strJoin models strings.Join(elems, sep) for a slice of concrete length.
func (m *M) strJoin(p *path, ci ssa.CallInstruction, elems VSlice, sep VStr) VStr {
	n, ok := constInt(elems.Len)
	if !ok {
		panic(unsupported("strings.Join of a slice with symbolic length"))
	}
	out := m.strConst("")
	st := types.Typ[types.String]
	for i := 0; i < int(n); i++ {
		ptr := &VSet{}
		for _, al := range elems.Ptr.Alts {
			if a, ok := al.C.(Addr); ok {
				ptr.Alts = append(ptr.Alts, Alt{al.G, a + Addr(i)})
			}
		}
		e := m.load(p, ptr, st, ci, true).(VStr)
		if i > 0 {
			out = m.strConcat(out, sep)
		}
		out = m.strConcat(out, e)
	}
	return out
}

func (m *M) showStr(v VStr) string {
	if s, ok := v.concrete(); ok {
		return fmt.Sprintf("%q", s)
	}
	return fmt.Sprintf("string(cap %d)", len(v.B))
}
