package eng

import (
	"fmt"
	"go/types"
	"sort"

	"gobmc/smt"

	"golang.org/x/tools/go/ssa"
)

// Value is a symbolic Go value.
type Value interface{}

type VInt struct{ T *smt.Term }  // bit-vector of the Go width
type VBool struct{ T *smt.Term } // Bool

// Concrete alternatives of a guarded set.
type Addr int                    // heap leaf address (0 is never allocated)
type NilC struct{}               // nil pointer / chan / map / func
type DoneChan struct{ Ctx Addr } // the Done() channel of a context object
type Closure struct {
	Fn       *ssa.Function
	Bindings []Value
	Intr     string // non-empty: intrinsic closure (e.g. "cancel")
	A        Addr   // intrinsic payload
	id       int
}

type Alt struct {
	G *smt.Term
	C interface{} // Addr | NilC | DoneChan | *Closure
}

// VSet is a guarded set of concrete reference-like values.
type VSet struct{ Alts []Alt }

type IAlt struct {
	G   *smt.Term
	Typ types.Type // nil = nil interface
	Val Value
}
type VIface struct{ Alts []IAlt }

type VTuple []Value
type VAgg []Value // struct / array by value (leaves flattened one level per field)
type VSlice struct {
	Ptr      *VSet
	Len, Cap VInt
}
type VRange struct{ M *VSet } // map iterator placeholder

func (m *M) nilSet() *VSet { return &VSet{Alts: []Alt{{m.c.T, NilC{}}}} }
func (m *M) addrSet(a Addr) *VSet {
	return &VSet{Alts: []Alt{{m.c.T, a}}}
}
func (m *M) closSet(cl *Closure) *VSet { return &VSet{Alts: []Alt{{m.c.T, cl}}} }

func altKey(c interface{}) string {
	switch x := c.(type) {
	case Addr:
		return fmt.Sprintf("a%d", int(x))
	case NilC:
		return "nil"
	case DoneChan:
		return fmt.Sprintf("d%d", int(x.Ctx))
	case *Closure:
		return fmt.Sprintf("c%d", x.id)
	}
	panic(fmt.Sprintf("altKey %T", c))
}

func (m *M) normSet(alts []Alt) *VSet {
	idx := map[string]int{}
	var out []Alt
	for _, a := range alts {
		if a.G.IsFalse() {
			continue
		}
		k := altKey(a.C)
		if i, ok := idx[k]; ok {
			out[i].G = m.c.Or(out[i].G, a.G)
		} else {
			idx[k] = len(out)
			out = append(out, a)
		}
	}
	sort.SliceStable(out, func(i, j int) bool { return altKey(out[i].C) < altKey(out[j].C) })
	return &VSet{Alts: out}
}

// merge returns ite(g, a, b).
func (m *M) merge(g *smt.Term, a, b Value) Value {
	if g.IsTrue() || b == nil {
		return a
	}
	if g.IsFalse() || a == nil {
		return b
	}
	switch x := a.(type) {
	case VInt:
		y := b.(VInt)
		return VInt{m.c.Ite(g, x.T, y.T)}
	case VBool:
		y := b.(VBool)
		return VBool{m.c.Ite(g, x.T, y.T)}
	case *VSet:
		y := b.(*VSet)
		var alts []Alt
		ng := m.c.Not(g)
		for _, al := range x.Alts {
			alts = append(alts, Alt{m.c.And(g, al.G), al.C})
		}
		for _, al := range y.Alts {
			alts = append(alts, Alt{m.c.And(ng, al.G), al.C})
		}
		return m.normSet(alts)
	case *VIface:
		y := b.(*VIface)
		var alts []IAlt
		ng := m.c.Not(g)
		for _, al := range x.Alts {
			alts = append(alts, IAlt{m.c.And(g, al.G), al.Typ, al.Val})
		}
		for _, al := range y.Alts {
			alts = append(alts, IAlt{m.c.And(ng, al.G), al.Typ, al.Val})
		}
		return m.normIface(alts)
	case VTuple:
		y := b.(VTuple)
		out := make(VTuple, len(x))
		for i := range x {
			out[i] = m.merge(g, x[i], y[i])
		}
		return out
	case VAgg:
		y := b.(VAgg)
		out := make(VAgg, len(x))
		for i := range x {
			out[i] = m.merge(g, x[i], y[i])
		}
		return out
	case VSlice:
		y := b.(VSlice)
		return VSlice{m.merge(g, x.Ptr, y.Ptr).(*VSet), m.merge(g, x.Len, y.Len).(VInt), m.merge(g, x.Cap, y.Cap).(VInt)}
	case VStr:
		return m.strMerge(g, x, b.(VStr))
	}
	panic(fmt.Sprintf("merge: unsupported %T", a))
}

func (m *M) normIface(alts []IAlt) *VIface {
	// group by (type, payload identity when payload is a single-alt set)
	var out []IAlt
	for _, a := range alts {
		if a.G.IsFalse() {
			continue
		}
		merged := false
		for i := range out {
			if !sameType(out[i].Typ, a.Typ) {
				continue
			}
			if a.Typ == nil {
				out[i].G = m.c.Or(out[i].G, a.G)
				merged = true
				break
			}
			// same dynamic type: merge payloads under guards
			out[i].Val = m.merge(a.G, a.Val, out[i].Val)
			out[i].G = m.c.Or(out[i].G, a.G)
			merged = true
			break
		}
		if !merged {
			out = append(out, a)
		}
	}
	return &VIface{Alts: out}
}

func sameType(a, b types.Type) bool {
	if a == nil || b == nil {
		return a == nil && b == nil
	}
	return types.Identical(a, b)
}

// eqSets: a == b for guarded sets.
func (m *M) eqSets(a, b *VSet) *smt.Term {
	var ds []*smt.Term
	for _, x := range a.Alts {
		for _, y := range b.Alts {
			if altKey(x.C) == altKey(y.C) {
				ds = append(ds, m.c.And(x.G, y.G))
			}
		}
	}
	return m.c.Or(ds...)
}

func (m *M) eqValues(a, b Value) *smt.Term {
	switch x := a.(type) {
	case VInt:
		return m.c.Eq(x.T, b.(VInt).T)
	case VBool:
		return m.c.Eq(x.T, b.(VBool).T)
	case *VSet:
		return m.eqSets(x, b.(*VSet))
	case *VIface:
		y := b.(*VIface)
		var ds []*smt.Term
		for _, p := range x.Alts {
			for _, q := range y.Alts {
				if !sameType(p.Typ, q.Typ) {
					continue
				}
				if p.Typ == nil {
					ds = append(ds, m.c.And(p.G, q.G))
				} else {
					ds = append(ds, m.c.And(p.G, q.G, m.eqValues(p.Val, q.Val)))
				}
			}
		}
		return m.c.Or(ds...)
	case VStr:
		return m.strEq(x, b.(VStr))
	case VSlice:
		// only comparison with nil is legal in Go
		return m.eqSets(x.Ptr, b.(VSlice).Ptr)
	case VAgg:
		y := b.(VAgg)
		var cs []*smt.Term
		for i := range x {
			cs = append(cs, m.eqValues(x[i], y[i]))
		}
		return m.c.And(cs...)
	}
	panic(fmt.Sprintf("eqValues: unsupported %T", a))
}

// ---- type layout ----

func isOpaque(t types.Type) (string, bool) {
	if n, ok := t.(*types.Named); ok && n.Obj().Pkg() != nil {
		p := n.Obj().Pkg().Path()
		if p == "sync" || p == "sync/atomic" || (p == "time" && n.Obj().Name() == "Timer") {
			return p + "." + n.Obj().Name(), true
		}
	}
	return "", false
}

// leafTypes flattens t into scalar leaves.
func leafTypes(t types.Type) []types.Type {
	if _, ok := isOpaque(t); ok {
		return []types.Type{t}
	}
	switch u := t.Underlying().(type) {
	case *types.Struct:
		var out []types.Type
		for i := 0; i < u.NumFields(); i++ {
			out = append(out, leafTypes(u.Field(i).Type())...)
		}
		if len(out) == 0 {
			out = append(out, t) // empty struct still gets an address
		}
		return out
	case *types.Array:
		var out []types.Type
		el := leafTypes(u.Elem())
		for i := int64(0); i < u.Len(); i++ {
			out = append(out, el...)
		}
		if len(out) == 0 {
			out = append(out, t)
		}
		return out
	}
	return []types.Type{t}
}

func fieldOffset(st *types.Struct, idx int) int {
	off := 0
	for i := 0; i < idx; i++ {
		off += len(leafTypes(st.Field(i).Type()))
	}
	return off
}

func intWidth(t types.Type) (smt.Sort, bool, bool) { // width, signed, ok
	b, ok := t.Underlying().(*types.Basic)
	if !ok {
		return 0, false, false
	}
	switch b.Kind() {
	case types.Int, types.Int64:
		return 64, true, true
	case types.Uint, types.Uint64, types.Uintptr:
		return 64, false, true
	case types.Int32:
		return 32, true, true
	case types.Uint32:
		return 32, false, true
	case types.Int16:
		return 16, true, true
	case types.Uint16:
		return 16, false, true
	case types.Int8:
		return 8, true, true
	case types.Uint8:
		return 8, false, true
	case types.UntypedInt, types.UntypedRune:
		return 64, true, true
	}
	return 0, false, false
}

// zero returns the zero value of a leaf or aggregate type.
func (m *M) zero(t types.Type) Value {
	if name, ok := isOpaque(t); ok {
		switch name {
		case "sync.Mutex", "sync.RWMutex", "sync.Once", "sync/atomic.Bool":
			return VBool{m.c.F}
		case "sync/atomic.Int32", "sync/atomic.Uint32":
			return VInt{m.c.BV(0, 32)}
		case "sync/atomic.Int64", "sync/atomic.Uint64":
			return VInt{m.c.BV(0, 64)}
		}
		if n, ok := t.(*types.Named); ok && n.Obj().Name() == "Pointer" {
			return m.nilSet()
		}
		return VInt{m.c.BV(0, 8)}
	}
	switch u := t.Underlying().(type) {
	case *types.Basic:
		if u.Info()&types.IsBoolean != 0 {
			return VBool{m.c.F}
		}
		if u.Info()&types.IsString != 0 {
			return m.strConst("")
		}
		if w, _, ok := intWidth(t); ok {
			return VInt{m.c.BV(0, w)}
		}
		if u.Kind() == types.UnsafePointer {
			return m.nilSet()
		}
	case *types.Pointer, *types.Chan, *types.Map, *types.Signature:
		return m.nilSet()
	case *types.Interface:
		return &VIface{Alts: []IAlt{{m.c.T, nil, nil}}}
	case *types.Slice:
		return VSlice{m.nilSet(), VInt{m.c.BV(0, 64)}, VInt{m.c.BV(0, 64)}}
	case *types.Struct:
		out := VAgg{}
		for i := 0; i < u.NumFields(); i++ {
			out = append(out, m.zero(u.Field(i).Type()))
		}
		return out
	case *types.Array:
		out := VAgg{}
		for i := int64(0); i < u.Len(); i++ {
			out = append(out, m.zero(u.Elem()))
		}
		return out
	case *types.Tuple:
		out := VTuple{}
		for i := 0; i < u.Len(); i++ {
			out = append(out, m.zero(u.At(i).Type()))
		}
		return out
	}
	panic(fmt.Sprintf("zero: unsupported type %s", t))
}

// flatten an aggregate value into leaves in leafTypes order.
func (m *M) flatten(t types.Type, v Value, out *[]Value) {
	if _, ok := isOpaque(t); ok {
		*out = append(*out, v)
		return
	}
	switch u := t.Underlying().(type) {
	case *types.Struct:
		if u.NumFields() == 0 {
			*out = append(*out, VAgg{})
			return
		}
		agg := v.(VAgg)
		for i := 0; i < u.NumFields(); i++ {
			m.flatten(u.Field(i).Type(), agg[i], out)
		}
		return
	case *types.Array:
		if u.Len() == 0 {
			*out = append(*out, VAgg{})
			return
		}
		agg := v.(VAgg)
		for i := int64(0); i < u.Len(); i++ {
			m.flatten(u.Elem(), agg[i], out)
		}
		return
	}
	*out = append(*out, v)
}

func (m *M) unflatten(t types.Type, leaves []Value, pos *int) Value {
	if _, ok := isOpaque(t); ok {
		v := leaves[*pos]
		*pos++
		return v
	}
	switch u := t.Underlying().(type) {
	case *types.Struct:
		if u.NumFields() == 0 {
			*pos++
			return VAgg{}
		}
		agg := VAgg{}
		for i := 0; i < u.NumFields(); i++ {
			agg = append(agg, m.unflatten(u.Field(i).Type(), leaves, pos))
		}
		return agg
	case *types.Array:
		if u.Len() == 0 {
			*pos++
			return VAgg{}
		}
		agg := VAgg{}
		for i := int64(0); i < u.Len(); i++ {
			agg = append(agg, m.unflatten(u.Elem(), leaves, pos))
		}
		return agg
	}
	v := leaves[*pos]
	*pos++
	return v
}
