module gobmc

go 1.23

require (
	github.com/aperturerobotics/util v0.0.0
	github.com/cenkalti/backoff/v4 v4.3.0
	golang.org/x/tools v0.29.0
)

require (
	github.com/aperturerobotics/json-iterator-lite v1.0.0 // indirect
	github.com/aperturerobotics/protobuf-go-lite v0.8.0 // indirect
	github.com/pkg/errors v0.9.1 // indirect
	github.com/sirupsen/logrus v1.9.3 // indirect
	golang.org/x/exp v0.0.0-20241108190413-2d47ceb2692f // indirect
	golang.org/x/mod v0.22.0 // indirect
	golang.org/x/sync v0.10.0 // indirect
	golang.org/x/sys v0.29.0 // indirect
)

replace github.com/aperturerobotics/util => /repo
