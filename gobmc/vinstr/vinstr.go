// vinstr writes instrumented copies of Go files (a vsched.Yield before every statement, go
// statements routed through vsched.Go) and an overlay JSON for `go test -overlay`.
package vinstr

import (
	"bytes"
	"encoding/json"
	"fmt"
	"go/ast"
	"go/format"
	"go/parser"
	"go/token"
	"os"
	"path/filepath"
	"strconv"
)

// Instrument writes instrumented copies of files into outDir and an overlay.json mapping the
// original paths to them; extra maps further virtual paths to real files.
//
// srcOf optionally names, per original path, another file whose contents stand in for it (a
// seeded change tested without touching /repo).
func Instrument(outDir string, files []string, extra map[string]string, srcOf map[string]string) (string, error) {
	overlay := map[string]string{}
	for k, v := range srcOf {
		overlay[k] = v
	}
	for i, f := range files {
		dst := filepath.Join(outDir, fmt.Sprintf("f%d_%s", i, filepath.Base(f)))
		src := f
		if alt, ok := srcOf[f]; ok {
			src = alt
		}
		if err := instrumentAs(src, f, dst); err != nil {
			return "", fmt.Errorf("vinstr: %s: %v", f, err)
		}
		overlay[f] = dst
	}
	for k, v := range extra {
		overlay[k] = v
	}
	b, _ := json.MarshalIndent(map[string]interface{}{"Replace": overlay}, "", " ")
	p := filepath.Join(outDir, "overlay.json")
	return p, os.WriteFile(p, b, 0o644)
}

func yieldStmt(fset *token.FileSet, pos token.Pos) ast.Stmt {
	p := fset.Position(pos)
	id := fmt.Sprintf("%s:%d:%d", p.Filename, p.Line, p.Column)
	return &ast.ExprStmt{X: &ast.CallExpr{
		Fun:  &ast.SelectorExpr{X: ast.NewIdent("vsched"), Sel: ast.NewIdent("Yield")},
		Args: []ast.Expr{&ast.BasicLit{Kind: token.STRING, Value: strconv.Quote(id)}},
	}}
}

// rewriteSelect wraps the channel of every communication of a select statement in
// vsched.SelRecv / vsched.SelSend (id of the statement, index of the communication), so that the
// replay can disable the cases the model did not choose.
func rewriteSelect(fset *token.FileSet, sel *ast.SelectStmt) {
	p := fset.Position(sel.Pos())
	id := fmt.Sprintf("%s:%d:%d", p.Filename, p.Line, p.Column)
	wrap := func(fn string, i int, ch ast.Expr) ast.Expr {
		return &ast.CallExpr{
			Fun: &ast.SelectorExpr{X: ast.NewIdent("vsched"), Sel: ast.NewIdent(fn)},
			Args: []ast.Expr{
				&ast.BasicLit{Kind: token.STRING, Value: strconv.Quote(id)},
				&ast.BasicLit{Kind: token.INT, Value: strconv.Itoa(i)},
				ch,
			},
		}
	}
	recv := func(e ast.Expr, i int) {
		for {
			if pe, ok := e.(*ast.ParenExpr); ok {
				e = pe.X
				continue
			}
			break
		}
		if ue, ok := e.(*ast.UnaryExpr); ok && ue.Op == token.ARROW {
			ue.X = wrap("SelRecv", i, ue.X)
		}
	}
	i := 0
	for _, c := range sel.Body.List {
		cc, ok := c.(*ast.CommClause)
		if !ok || cc.Comm == nil {
			continue
		}
		switch st := cc.Comm.(type) {
		case *ast.SendStmt:
			st.Chan = wrap("SelSend", i, st.Chan)
		case *ast.ExprStmt:
			recv(st.X, i)
		case *ast.AssignStmt:
			if len(st.Rhs) == 1 {
				recv(st.Rhs[0], i)
			}
		}
		i++
	}
}

func rewriteGo(fset *token.FileSet, g *ast.GoStmt, n *int) ast.Stmt {
	p := fset.Position(g.Pos())
	site := fmt.Sprintf("%s:%d", p.Filename, p.Line)
	var pre []ast.Stmt
	tmp := func(e ast.Expr) ast.Expr {
		*n++
		name := fmt.Sprintf("_vs%d", *n)
		pre = append(pre, &ast.AssignStmt{Lhs: []ast.Expr{ast.NewIdent(name)}, Tok: token.DEFINE, Rhs: []ast.Expr{e}})
		return ast.NewIdent(name)
	}
	call := &ast.CallExpr{Ellipsis: g.Call.Ellipsis}
	if fl, ok := g.Call.Fun.(*ast.FuncLit); ok {
		call.Fun = fl // go func(){...}(args): the literal is evaluated in the new goroutine anyway
	} else {
		call.Fun = tmp(g.Call.Fun)
	}
	for _, a := range g.Call.Args {
		call.Args = append(call.Args, tmp(a))
	}
	body := &ast.FuncLit{Type: &ast.FuncType{Params: &ast.FieldList{}}, Body: &ast.BlockStmt{List: []ast.Stmt{&ast.ExprStmt{X: call}}}}
	spawn := &ast.ExprStmt{X: &ast.CallExpr{
		Fun:  &ast.SelectorExpr{X: ast.NewIdent("vsched"), Sel: ast.NewIdent("Go")},
		Args: []ast.Expr{&ast.BasicLit{Kind: token.STRING, Value: strconv.Quote(site)}, body},
	}}
	return &ast.BlockStmt{List: append(pre, spawn)}
}

var builtins = map[string]bool{"close": true, "delete": true, "panic": true, "print": true, "println": true, "clear": true, "copy": true}

// rewriteDefer turns `defer f(a...)` into `_f, _a := f, a; defer func(){ Yield(id#defer); _f(_a...) }()`
// so that the deferred call is a point where the replay controller can stop the goroutine.
func rewriteDefer(fset *token.FileSet, d *ast.DeferStmt, n *int) []ast.Stmt {
	if _, isLit := d.Call.Fun.(*ast.FuncLit); isLit {
		return nil
	}
	if id, ok := d.Call.Fun.(*ast.Ident); ok && id.Name == "recover" {
		return nil
	}
	p := fset.Position(d.Pos())
	yid := fmt.Sprintf("%s:%d:%d#defer", p.Filename, p.Line, p.Column)
	var pre []ast.Stmt
	tmp := func(e ast.Expr) ast.Expr {
		*n++
		name := fmt.Sprintf("_vs%d", *n)
		pre = append(pre, &ast.AssignStmt{Lhs: []ast.Expr{ast.NewIdent(name)}, Tok: token.DEFINE, Rhs: []ast.Expr{e}})
		return ast.NewIdent(name)
	}
	call := &ast.CallExpr{Ellipsis: d.Call.Ellipsis}
	if id, ok := d.Call.Fun.(*ast.Ident); ok && builtins[id.Name] {
		call.Fun = id
	} else {
		call.Fun = tmp(d.Call.Fun)
	}
	for _, a := range d.Call.Args {
		call.Args = append(call.Args, tmp(a))
	}
	if d.Call.Ellipsis.IsValid() {
		call.Ellipsis = token.Pos(1)
	}
	y := &ast.ExprStmt{X: &ast.CallExpr{
		Fun:  &ast.SelectorExpr{X: ast.NewIdent("vsched"), Sel: ast.NewIdent("Yield")},
		Args: []ast.Expr{&ast.BasicLit{Kind: token.STRING, Value: strconv.Quote(yid)}},
	}}
	body := &ast.FuncLit{Type: &ast.FuncType{Params: &ast.FieldList{}}, Body: &ast.BlockStmt{List: []ast.Stmt{y, &ast.ExprStmt{X: call}}}}
	return append(pre, &ast.DeferStmt{Call: &ast.CallExpr{Fun: body}})
}

func instrList(fset *token.FileSet, list []ast.Stmt, n *int) []ast.Stmt {
	var out []ast.Stmt
	for _, s := range list {
		switch x := s.(type) {
		case *ast.DeclStmt, *ast.LabeledStmt, *ast.EmptyStmt:
			out = append(out, s)
			continue
		case *ast.GoStmt:
			out = append(out, yieldStmt(fset, s.Pos()), rewriteGo(fset, x, n))
			continue
		case *ast.DeferStmt:
			if d := rewriteDefer(fset, x, n); d != nil {
				out = append(out, yieldStmt(fset, s.Pos()))
				out = append(out, d...)
				continue
			}
		case *ast.ExprStmt:
			// vrt.Go(name, fn) in harness code: pass the original source position as the spawn site
			if ce, ok := x.X.(*ast.CallExpr); ok {
				if se, ok := ce.Fun.(*ast.SelectorExpr); ok && (se.Sel.Name == "Go" || se.Sel.Name == "AtQuiescence") {
					if id, ok := se.X.(*ast.Ident); ok && id.Name == "vrt" && (len(ce.Args) == 2 || se.Sel.Name == "AtQuiescence") {
						p := fset.Position(ce.Lparen)
						site := fmt.Sprintf("%s:%d", p.Filename, p.Line)
						spawn := &ast.ExprStmt{X: &ast.CallExpr{
							Fun:  &ast.SelectorExpr{X: ast.NewIdent("vsched"), Sel: ast.NewIdent("Go")},
							Args: []ast.Expr{&ast.BasicLit{Kind: token.STRING, Value: strconv.Quote(site)}, ce.Args[len(ce.Args)-1]},
						}}
						out = append(out, yieldStmt(fset, s.Pos()), spawn)
						continue
					}
				}
			}
		case *ast.SelectStmt:
			rewriteSelect(fset, x)
		case *ast.AssignStmt:
			// X = f(...): the store happens after the call returns; give it its own yield
			if x.Tok == token.ASSIGN && len(x.Rhs) == 1 {
				if _, isCall := x.Rhs[0].(*ast.CallExpr); isCall {
					var tmps []ast.Expr
					for range x.Lhs {
						*n++
						tmps = append(tmps, ast.NewIdent(fmt.Sprintf("_vs%d", *n)))
					}
					y := yieldStmt(fset, s.Pos()).(*ast.ExprStmt)
					lit := y.X.(*ast.CallExpr).Args[0].(*ast.BasicLit)
					id, _ := strconv.Unquote(lit.Value)
					post := &ast.ExprStmt{X: &ast.CallExpr{
						Fun:  &ast.SelectorExpr{X: ast.NewIdent("vsched"), Sel: ast.NewIdent("Yield")},
						Args: []ast.Expr{&ast.BasicLit{Kind: token.STRING, Value: strconv.Quote(id + "#store")}},
					}}
					blk := &ast.BlockStmt{List: []ast.Stmt{
						&ast.AssignStmt{Lhs: tmps, Tok: token.DEFINE, Rhs: x.Rhs},
						post,
						&ast.AssignStmt{Lhs: x.Lhs, Tok: token.ASSIGN, Rhs: tmps},
					}}
					out = append(out, yieldStmt(fset, s.Pos()), blk)
					continue
				}
			}
			// x, y := f(...): same, without a block (the variables are declared in this scope); the
			// stored-to variable may be a heap cell that other goroutines read (e.g. `err` whose
			// address is published)
			if x.Tok == token.DEFINE && len(x.Rhs) == 1 {
				if _, isCall := x.Rhs[0].(*ast.CallExpr); isCall {
					var tmps []ast.Expr
					for range x.Lhs {
						*n++
						tmps = append(tmps, ast.NewIdent(fmt.Sprintf("_vs%d", *n)))
					}
					y := yieldStmt(fset, s.Pos()).(*ast.ExprStmt)
					lit := y.X.(*ast.CallExpr).Args[0].(*ast.BasicLit)
					id, _ := strconv.Unquote(lit.Value)
					post := &ast.ExprStmt{X: &ast.CallExpr{
						Fun:  &ast.SelectorExpr{X: ast.NewIdent("vsched"), Sel: ast.NewIdent("Yield")},
						Args: []ast.Expr{&ast.BasicLit{Kind: token.STRING, Value: strconv.Quote(id + "#store")}},
					}}
					out = append(out, y,
						&ast.AssignStmt{Lhs: tmps, Tok: token.DEFINE, Rhs: x.Rhs},
						post,
						&ast.AssignStmt{Lhs: x.Lhs, Tok: token.DEFINE, Rhs: tmps})
					continue
				}
			}
		}
		if !s.Pos().IsValid() {
			out = append(out, s)
			continue
		}
		out = append(out, yieldStmt(fset, s.Pos()), s)
	}
	return out
}

func instrument(src, dst string) error { return instrumentAs(src, src, dst) }

// condLoops: loop bodies that get the loop condition prepended (see instrumentAs)
var condLoops = map[*ast.BlockStmt][]ast.Stmt{}

// instrumentAs instruments the contents of src as if they were the file named as (positions in
// yield ids use that name).
func instrumentAs(src, as, dst string) error {
	fset := token.NewFileSet()
	content, err := os.ReadFile(src)
	if err != nil {
		return err
	}
	f, err := parser.ParseFile(fset, as, content, parser.ParseComments)
	if err != nil {
		return err
	}
	n := 0
	// time.AfterFunc(d, f) -> vsched.AfterFunc(site, d, f)
	ast.Inspect(f, func(nd ast.Node) bool {
		ce, ok := nd.(*ast.CallExpr)
		if !ok {
			return true
		}
		if se, ok := ce.Fun.(*ast.SelectorExpr); ok && se.Sel.Name == "AfterFunc" {
			if id, ok := se.X.(*ast.Ident); ok && id.Name == "time" && len(ce.Args) == 2 {
				p := fset.Position(ce.Pos())
				site := fmt.Sprintf("%s:%d", p.Filename, p.Line)
				ce.Fun = &ast.SelectorExpr{X: ast.NewIdent("vsched"), Sel: ast.NewIdent("AfterFunc")}
				ce.Args = append([]ast.Expr{&ast.BasicLit{Kind: token.STRING, Value: strconv.Quote(site)}}, ce.Args...)
			}
		}
		return true
	})
	// for init; cond; post { B }  ->  for init; ; post { Yield(id of the for statement); if !(cond) { break }; B }
	// so that every re-evaluation of a loop condition (e.g. a compare-and-swap retried in the
	// condition) is a point where the goroutine can be stopped
	ast.Inspect(f, func(nd ast.Node) bool {
		fs, ok := nd.(*ast.ForStmt)
		if !ok || fs.Cond == nil {
			return true
		}
		hasCall := false
		ast.Inspect(fs.Cond, func(x ast.Node) bool {
			if _, ok := x.(*ast.CallExpr); ok {
				hasCall = true
			}
			return true
		})
		if !hasCall {
			return true // plain comparisons cannot be visible operations
		}
		y := yieldStmt(fset, fs.Pos())
		brk := &ast.IfStmt{
			Cond: &ast.UnaryExpr{Op: token.NOT, X: &ast.ParenExpr{X: fs.Cond}},
			Body: &ast.BlockStmt{List: []ast.Stmt{&ast.BranchStmt{Tok: token.BREAK}}},
		}
		condLoops[fs.Body] = []ast.Stmt{y, brk}
		fs.Cond = nil
		return true
	})
	skip := map[*ast.BlockStmt]bool{}
	ast.Inspect(f, func(nd ast.Node) bool {
		switch x := nd.(type) {
		case *ast.SelectStmt:
			skip[x.Body] = true
		case *ast.SwitchStmt:
			skip[x.Body] = true
		case *ast.TypeSwitchStmt:
			skip[x.Body] = true
		case *ast.BlockStmt:
			if skip[x] {
				return true
			}
			x.List = instrList(fset, x.List, &n)
			if pre, ok := condLoops[x]; ok {
				x.List = append(append([]ast.Stmt{}, pre...), x.List...)
			}
		case *ast.CaseClause:
			x.Body = instrList(fset, x.Body, &n)
		case *ast.CommClause:
			x.Body = instrList(fset, x.Body, &n)
		}
		return true
	})
	// a harness file whose only use of vrt was vrt.Go / vrt.AtQuiescence (rewritten above) must
	// still use the import
	for _, is := range f.Imports {
		if is.Path.Value == strconv.Quote("gobmc/vrt") && is.Name == nil {
			f.Decls = append(f.Decls, &ast.GenDecl{Tok: token.VAR, Specs: []ast.Spec{&ast.ValueSpec{
				Names:  []*ast.Ident{ast.NewIdent("_")},
				Values: []ast.Expr{&ast.SelectorExpr{X: ast.NewIdent("vrt"), Sel: ast.NewIdent("Assert")}},
			}}})
		}
	}
	// add the import
	imp := &ast.ImportSpec{Path: &ast.BasicLit{Kind: token.STRING, Value: strconv.Quote("gobmc/vsched")}}
	f.Decls = append([]ast.Decl{&ast.GenDecl{Tok: token.IMPORT, Specs: []ast.Spec{imp}}}, f.Decls...)
	f.Comments = nil // positions are stale after rewriting
	var buf bytes.Buffer
	if err := format.Node(&buf, fset, f); err != nil {
		return err
	}
	return os.WriteFile(dst, buf.Bytes(), 0o644)
}
