package main

import "fmt"

// Job is one engine run (or one case-split batch of runs) of a harness.
type Job struct {
	H          string   // harness function in /verif/gobmc/harness
	K, U       int      // global steps, loop unwinding
	MapCap     int      // slots per map (0 = default 3)
	AppendCap  int      // cells for appends to symbolic-length slices (0 = default 4)
	Prune      bool     // solver-assisted pruning of infeasible configurations
	Race       bool     // add the data-race violation class
	Spin       bool     // unwinding failures of library loops are violations (busy loop)
	Preempt    int      // bound on preemptions (0 = unbounded; n>0 = at most n)
	Only       string   // restrict the violation disjunction
	Covers     int      // cover witnesses to extract and replay natively
	Fixes      []string // case splits (one engine run each, same process)
	Solver     string
	QueryMs    int
	MaxTerms   int
	TimeoutSec int
	Weight     int // cores reserved (memory-heavy jobs)
}

type Plan struct {
	Quick, Thorough []Job
	Bounds          string   // stated bounds
	Outside         string   // what lies outside the claim
	Assumptions     []string // harness-level assumptions
}

var plans = map[string]Plan{}

// split distributes the case splits of a job over n processes.
func split(j Job, n int) []Job {
	if len(j.Fixes) <= 1 || n <= 1 {
		return []Job{j}
	}
	var out []Job
	for i := 0; i < n; i++ {
		jj := j
		jj.Fixes = nil
		for k := i; k < len(j.Fixes); k += n {
			jj.Fixes = append(jj.Fixes, j.Fixes[k])
		}
		if len(jj.Fixes) > 0 {
			out = append(out, jj)
		}
	}
	return out
}

func padCases(maxLen int, lens []int) []string {
	var out []string
	add := func(l, c int) {
		if c >= l {
			out = append(out, fmt.Sprintf("x.len=%d,x.cap=%d", l, c))
		}
	}
	if lens == nil {
		for l := 0; l <= maxLen; l++ {
			lens = append(lens, l)
		}
	}
	for _, l := range lens {
		padded := ((l + 1 + 31) / 32) * 32
		seen := map[int]bool{}
		for _, c := range []int{l, l + 1, padded - 1, padded, padded + 8} {
			if !seen[c] {
				seen[c] = true
				add(l, c)
			}
		}
	}
	return out
}

func lenCases(names []string, max int) []string {
	var out []string
	var rec func(i int, cur string)
	rec = func(i int, cur string) {
		if i == len(names) {
			out = append(out, cur)
			return
		}
		for l := 0; l <= max; l++ {
			s := fmt.Sprintf("%s.len=%d", names[i], l)
			if cur != "" {
				s = cur + "," + s
			}
			rec(i+1, s)
		}
	}
	rec(0, "")
	return out
}

func chunkCases(step int) []string {
	var out []string
	for c0 := 0; c0 <= 20; c0 += step {
		for c1 := 0; c0+c1 <= 20; c1 += step {
			for c2 := 0; c0+c1+c2 <= 20; c2 += step {
				out = append(out, fmt.Sprintf("c0=%d,c1=%d,c2=%d", c0, c1, c2))
			}
		}
	}
	return out
}

func uniqCases() []string {
	var out []string
	for op := 0; op <= 3; op++ {
		for n := 0; n <= 3; n++ {
			out = append(out, fmt.Sprintf("op=%d,n=%d", op, n))
		}
	}
	return out
}

// keyedCases: case splits for H_C06_History with a release delay: all histories of 3 operations
// over the alphabet, from initial key set n (0 empty, 1 {1}, 2 {1,2})
func keyedCases(n int, alphabet []int) []string {
	var out []string
	for _, a := range alphabet {
		for _, b := range alphabet {
			for _, c := range alphabet {
				out = append(out, fmt.Sprintf("delay=1,init=%d,op0=%d,op1=%d,op2=%d", n, a, b, c))
			}
		}
	}
	return out
}

func keyedCases2(n int, alphabet []int) []string {
	var out []string
	for _, a := range alphabet {
		for _, b := range alphabet {
			out = append(out, fmt.Sprintf("delay=1,init=%d,op0=%d,op1=%d", n, a, b))
		}
	}
	return out
}

// c14Cases: first outcome x operation x backoff (after a ClearContext when afterClear)
func c14Cases(afterClear bool) []string {
	var out []string
	for o0 := 0; o0 <= 2; o0++ {
		for op := 0; op <= 6; op++ {
			for bo := 0; bo <= 1; bo++ {
				if afterClear {
					if bo == 0 {
						continue
					}
					out = append(out, fmt.Sprintf("o0=%d,op0=4,op1=%d", o0, op))
				} else {
					out = append(out, fmt.Sprintf("o0=%d,op0=%d,bo=%d", o0, op, bo))
				}
			}
		}
	}
	return out
}

func proxyCases() []string {
	var out []string
	for na := 0; na <= 2; na++ {
		for nb := 0; nb <= 2; nb++ {
			for a2 := 0; a2 <= 1; a2++ {
				for b2 := 0; b2 <= 1; b2++ {
					out = append(out, fmt.Sprintf("na=%d,nb=%d,a2=%d,b2=%d,bblock=0", na, nb, a2, b2))
					out = append(out, fmt.Sprintf("na=%d,nb=%d,a2=%d,b2=%d,bblock=1", na, nb, a2, b2))
				}
			}
		}
	}
	return out
}

func kindCases() []string {
	var out []string
	for a := 0; a <= 4; a++ {
		for b := 0; b <= 4; b++ {
			if (a == 3 || b == 3) && a != 2 && b != 2 {
				continue // a waiting function with nobody to end the call: excluded by the harness
			}
			out = append(out, fmt.Sprintf("k0=%d,k1=%d", a, b))
		}
	}
	return out
}

func scriptCases(n int) []string {
	var out []string
	for a := 0; a < n; a++ {
		for b := 0; b < n; b++ {
			out = append(out, fmt.Sprintf("op0=%d,op1=%d", a, b))
		}
	}
	return out
}

func cat(js ...[]Job) []Job {
	var out []Job
	for _, j := range js {
		out = append(out, j...)
	}
	return out
}

func init() {
	plans["C17"] = Plan{
		Quick: cat(
			[]Job{
				{H: "H_C17_ErrNotLost", K: 24, U: 3},
				{H: "H_C17_Small", K: 12, U: 3},
			},
			// two entries: all 25 combinations of kinds (case split), caller cancellation symbolic
			split(Job{H: "H_C17_Two", K: 30, U: 3, Fixes: kindCases(), TimeoutSec: 700}, 12),
		),
		Thorough: []Job{
			{H: "H_C17_Three", K: 40, U: 4, TimeoutSec: 3000, QueryMs: 2400000},
		},
		Bounds:  "0, 1, 2 (thorough: 3) entries, each of kind {nil entry, returns nil, returns its own error, waits for its context then returns Canceled, returns Canceled at once} (the 18 terminating combinations of two entries are case split, fully symbolic for 0/1 and in the thorough 3-entry harness); optional cancellation of the caller's context at any point; K<=30 (40) global steps, U=3 (4)",
		Outside: "more than 3 functions; functions that panic",
	}

	plans["C01"] = Plan{
		Quick: []Job{
			{H: "H_C01_Mutex3", K: 26, U: 3, Covers: 2, Only: "assert/|panic/"},
			{H: "H_C01_MutexLocker", K: 26, U: 3, Only: "assert/|panic/"},
			{H: "H_C01_RW_2R1W", K: 26, U: 3, Covers: 1, Only: "assert/|panic/"},
			{H: "H_C01_RW_1R2W", K: 26, U: 3, Covers: 1, Only: "assert/|panic/"},
			{H: "H_C01_RWLocker", K: 26, U: 3, Only: "assert/|panic/", TimeoutSec: 900},
		},
		Thorough: []Job{
			{H: "H_C01_RWSym2", K: 24, U: 3, Only: "assert/|panic/", TimeoutSec: 3000, QueryMs: 2400000},
			{H: "H_C01_RWSym3", K: 30, U: 3, Only: "assert/|panic/", TimeoutSec: 7000, QueryMs: 6000000},
		},
		Bounds:  "3 role-specialised goroutines per scenario (Mutex: cancellable Lock / TryLock+double release / Lock+double release; Locker adapters; RWMutex: 2 readers+1 writer and 1 reader+2 writers mixing cancellable Lock, TryLock and double release; Locker/RLocker), one acquire each, cancellation at any moment (environment event); K=26 global steps, U=3. Thorough: 2 and 3 actors whose API, mode, cancellation and double release are all symbolic.",
		Outside: "more than 3 goroutines, more than one acquire per goroutine",
	}
	plans["C02"] = Plan{
		Quick: []Job{
			{H: "H_C02_LongReader", K: 26, U: 3, Covers: 1},
			{H: "H_C02_NoTrace", K: 28, U: 3, Covers: 2},
			{H: "H_C02_MutexNoTrace", K: 28, U: 3, Covers: 1},
			{H: "H_C02_WriterPreference", K: 26, U: 3, TimeoutSec: 900},
			// one preemption in the quick tier (measured: unsat in ~6 min; two and three preemptions in thorough)
			{H: "H_C02_WriterPreference2", K: 30, U: 3, Preempt: 1, TimeoutSec: 740, QueryMs: 700000},
			{H: "H_C01_Mutex3", K: 26, U: 3, Only: "stuck/"},
			{H: "H_C01_RW_2R1W", K: 26, U: 3, Only: "stuck/"},
			{H: "H_C01_RW_1R2W", K: 26, U: 3, Only: "stuck/"},
		},
		Thorough: []Job{
			{H: "H_C01_RWSym3", K: 30, U: 3, Only: "stuck/", TimeoutSec: 7000, QueryMs: 6000000},
			{H: "H_C02_WriterPreference2", K: 30, U: 3, Preempt: 2, TimeoutSec: 7000, QueryMs: 6000000},
			{H: "H_C02_WriterPreference2", K: 30, U: 3, Preempt: 3, TimeoutSec: 7000, QueryMs: 6000000},
		},
		Bounds:  "3-4 goroutines per scenario: long-lived reader + cancelled write-waiter + late reader; holder + cancellable writer + cancellable reader followed by TryLock probes at quiescence (no trace); Mutex analogue; writer preference with ghost flags; plus the lost-wake-up (stuck at quiescence) class of the three C01 scenarios. K=26-28, U=3.",
		Outside: "fairness among several grantable waiters; more than 4 goroutines",
	}
	plans["C03"] = Plan{
		Quick: []Job{
			{H: "H_C03_Wait", K: 30, U: 3, Covers: 2},
			{H: "H_C03_WaitErr", K: 30, U: 3, Covers: 1},
			{H: "H_C03_WaitErrCancel", K: 30, U: 3, Covers: 2},
			{H: "H_C03_Generations", K: 20, U: 3},
		},
		Bounds:  "1-2 waiters, 1-2 broadcasting critical sections through HoldLock / TryHoldLock / HoldLockMaybeAsync (incl. its goroutine slow path), cancellation of the waiter at any moment (also of a waiter whose predicate fails: the predicate error wins once it was returned); generation harness with a concurrent third party; K<=30, U=3",
		Outside: "more than 2 waiters / 3 broadcasters",
	}

	plans["C04"] = Plan{
		Quick: []Job{
			{H: "H_C04_Restart2", K: 36, U: 3, Prune: true, Preempt: 2, Only: "routine-overlap|wait-return|setstate-channel|panic/", TimeoutSec: 900},
			{H: "H_C04_SetContext2", K: 36, U: 3, Prune: true, Preempt: 2, Only: "routine-overlap|wait-return|setstate-channel|panic/", TimeoutSec: 900},
			{H: "H_C04_ClearSetRoutine", K: 36, U: 3, Prune: true, Preempt: 2, Only: "routine-overlap|wait-return|setstate-channel|panic/", TimeoutSec: 900},
			{H: "H_C04_NilRoutine", K: 36, U: 3, Prune: true, Preempt: 2, Only: "routine-overlap|wait-return|setstate-channel|panic/", TimeoutSec: 900},
			{H: "H_C04_StateEmpty", K: 36, U: 3, Prune: true, Preempt: 2, Only: "routine-overlap|wait-return|setstate-channel|panic/", TimeoutSec: 900},
			// bug hunting only in the quick tier (short solver budget; the full proof is in thorough)
			{H: "H_C04_State2", K: 44, U: 3, Prune: true, Preempt: 1, Only: "routine-overlap|wait-return|setstate-channel|panic/", TimeoutSec: 700, QueryMs: 400000},
		},
		Thorough: []Job{
			{H: "H_C04_State2", K: 44, U: 3, Prune: true, Preempt: 2, Only: "routine-overlap|wait-return|setstate-channel|panic/", TimeoutSec: 6000, QueryMs: 5000000},
			{H: "H_C04_Restart2", K: 44, U: 3, Prune: true, Only: "routine-overlap|wait-return|setstate-channel|panic/", TimeoutSec: 3000, QueryMs: 2400000},
			{H: "H_C04_SetRoutine2", K: 44, U: 3, Prune: true, Preempt: 2, Only: "routine-overlap|wait-return|setstate-channel|panic/", TimeoutSec: 3000, QueryMs: 2400000},
			{H: "H_C04_Retry", K: 44, U: 3, Prune: true, Preempt: 2, Only: "routine-overlap|panic/", TimeoutSec: 3000},
		},
		Bounds:  "one driver; scripts of 2-3 supersessions issued inside one exit latency of the running instance (Restart;Restart / SetContext(B);Restart / ClearContext;SetRoutine;SetContext / SetRoutine(nil);SetRoutine / SetState(1);SetState(empty);SetState(2); thorough also Restart;SetRoutine;Restart / SetState;SetState;Restart / retry), followed by ClearContext; instances run until cancelled and return whenever scheduled; <= 4 instances; K=36-44, U=3; quick tier: schedules with at most 2 preemptions (context bound), thorough: 3 / unbounded",
		Outside: "more than 3 supersessions, several drivers (see C05)",
	}

	plans["C05"] = Plan{
		Quick: []Job{
			{H: "H_C05_TwoDrivers", K: 44, U: 4, Prune: true, Preempt: 2, TimeoutSec: 900},
			{H: "H_C05_RetryReplaced", K: 48, U: 3, Prune: true, Preempt: 2, TimeoutSec: 900},
			{H: "H_C05_StateVsRestart", K: 48, U: 4, Prune: true, Preempt: 1, TimeoutSec: 740, QueryMs: 400000},
			// the sequential supersession scripts of C04, here for their C05 oracles: the superseded
			// instance's context is cancelled when the superseding call returns / before a successor runs
			{H: "H_C04_SetContext2", K: 36, U: 3, Prune: true, Preempt: 2, Only: "superseded|panic/", TimeoutSec: 900},
			{H: "H_C04_Restart2", K: 36, U: 3, Prune: true, Preempt: 2, Only: "superseded|panic/", TimeoutSec: 900},
		},
		Thorough: []Job{
			{H: "H_C05_StateVsRestart", K: 48, U: 4, Prune: true, Preempt: 2, TimeoutSec: 6000, QueryMs: 5000000},
			{H: "H_C05_Survivor", K: 48, U: 4, Prune: true, Preempt: 2, TimeoutSec: 6000, QueryMs: 5000000},
		},
		Bounds:  "RoutineContainer: SetContext(A); SetContext(B, restart symbolic); RestartRoutine and two RestartRoutine calls, each superseded instance cancelled when the call returns; StateRoutineContainer with instances that run until cancelled; two concurrent drivers (SetState || SetContext;ClearContext and SetState || RestartRoutine) and one driver with a symbolic script of 2 operations out of {SetState(2), SetState(empty), RestartRoutine, SetContext(B), ClearContext}; checks at quiescence; <= 5 instances; K=44-48, U=4; schedules with at most 2 preemptions (context bound)",
		Outside: "more than 2 concurrent drivers, more than 2 scripted operations, instances that exit on their own (see C14)",
	}
	plans["C14"] = Plan{
		Quick: cat(
			split(Job{H: "H_C14_Step", K: 60, U: 3, Prune: true, Preempt: 2, Fixes: c14Cases(false), TimeoutSec: 1200}, 11),
			// two operations: fail, re-run (restart / backoff), then a context change or restart rule
			[]Job{{H: "H_C14_Machine2B", K: 80, U: 3, Prune: true, Preempt: 2, TimeoutSec: 1200,
				Fixes: []string{"o0=2,o1=1,op0=0,op1=3", "o0=2,o1=1,op0=5,op1=3"}}},
			[]Job{{H: "H_C14_Machine2B", K: 80, U: 3, Prune: true, Preempt: 2, TimeoutSec: 1200,
				Fixes: []string{"o0=2,o1=1,op0=0,op1=1", "o0=2,o1=1,op0=0,op1=4"}}},
			// a failed routine is replaced inside its backoff window, then the interval passes
			[]Job{{H: "H_C14_Machine2B", K: 80, U: 3, Prune: true, Preempt: 2, TimeoutSec: 1200, Fixes: []string{"o0=2,o1=1,op0=6,op1=5"}}},
		),
		Thorough: cat(
			split(Job{H: "H_C14_Machine2B", K: 80, U: 3, Prune: true, Preempt: 2, Fixes: c14Cases(true), TimeoutSec: 6000}, 12),
			// the replacement fails too and is retried when the interval passes (392 s of solving)
			[]Job{{H: "H_C14_Machine2B", K: 80, U: 3, Prune: true, Preempt: 2, TimeoutSec: 3000, Fixes: []string{"o0=2,o1=2,op0=6,op1=5"}}},
		),
		Bounds:  "transition table of the restart machine: the first instance succeeds / fails / runs until cancelled, with and without a retry backoff, then ONE operation out of {SetRoutine(new routine), RestartRoutine, SetContext(same,restart), SetContext(same), SetContext(other), ClearContext, backoff interval passes} (36 case splits; outcomes of the instances started by the operation are symbolic); thorough: the same after a preceding ClearContext (2 operations). The driver waits for quiescence between operations; reference state machine in the harness (run count, exit-callback count and error, WaitExited result, return values); schedules with at most 2 preemptions; K=60-80",
		Outside: "operations issued while an instance is between 'returned' and 'recorded' (C05 covers overlapping calls), histories longer than 2 operations, backoff durations",
	}

	all8 := []int{0, 1, 2, 3, 4, 5, 6, 7}
	plans["C06"] = Plan{
		Quick: cat(
			[]Job{
				{H: "H_C06_History", K: 30, U: 4, Fixes: []string{"delay=0"}, TimeoutSec: 900},
				{H: "H_C06_RefCount", K: 6, U: 8, AppendCap: 6},
			},
			split(Job{H: "H_C06_History", K: 44, U: 4, Fixes: append(keyedCases(0, all8), keyedCases(1, all8)...), TimeoutSec: 700}, 14),
		),
		Thorough: cat(
			split(Job{H: "H_C06_History", K: 50, U: 4, Fixes: append(keyedCases(0, all8), append(keyedCases(1, all8), keyedCases(2, all8)...)...), TimeoutSec: 9000}, 14),
			[]Job{{H: "H_C06_SyncKeepsKey", K: 48, U: 3, Prune: true, TimeoutSec: 3000, Weight: 3}},
		),
		Bounds:  "keys {1,2}; symbolic histories of 3 operations out of {SetKey(k), RemoveKey(k), SyncKeys(any subset, with a duplicate)} without release delay (fully symbolic) and, with a release delay, all 512 histories of 3 operations from each of the initial key sets {} and {1} (thorough: also from {1,2}; case split) followed by the expiry of the delay; KeyedRefCount: 2 references then 3 symbolic operations out of {release A, release B, RemoveKey, AddKeyRef}; container without context in the history harnesses, with context in H_C06_SyncKeepsKey",
		Outside: "more than 2 keys, durations, map iteration orders other than slot order",
	}

	plans["C11"] = Plan{
		Quick: []Job{
			{H: "H_C11_Promise_Await", K: 34, U: 3},
			{H: "H_C11_Promise_ErrCh", K: 34, U: 3},
			{H: "H_C11_Promise_CancelCh", K: 34, U: 3, Covers: 1},
			{H: "H_C11_CanceledResult", K: 30, U: 6, Spin: true},
			{H: "H_C11_Container", K: 34, U: 4, Spin: true, Preempt: 2, Covers: 2, TimeoutSec: 900},
			{H: "H_C11_ReplaceBack", K: 40, U: 4, Spin: true, Preempt: 2, TimeoutSec: 900},
			{H: "H_C11_ClearedThenStale", K: 40, U: 4, Spin: true, Preempt: 2, Covers: 1, TimeoutSec: 900},
		},
		Thorough: []Job{
			{H: "H_C11_Container", K: 34, U: 4, Spin: true, TimeoutSec: 3000, QueryMs: 2400000},
			{H: "H_C11_Promise", K: 34, U: 3, Preempt: 2, TimeoutSec: 3000, QueryMs: 2400000},
		},
		Bounds:  "Promise: 2 concurrent SetResult (value, error incl. context.Canceled) and one awaiter of each flavour in turn (Await / AwaitWithErrCh / AwaitWithCancelCh cancellable at any moment; thorough: all three awaiters at once); PromiseContainer: a result whose error is context.Canceled awaited through each of the 3 flavours (busy loop = unwinding failure of the await loop at U=6); awaiter concurrent with SetPromise / SetPromise(nil) / SetResult and the resolution of the contained promise; K<=34",
		Outside: "more than 2 setters / 3 awaiters; CPU time as such ('does not spin' is judged by loop unwinding)",
	}
	plans["C12"] = Plan{
		Quick: []Job{
			{H: "H_C12_LIFOOrder", K: 34, U: 3, TimeoutSec: 900},
			{H: "H_C12_PushPushPop", K: 34, U: 3, Preempt: 2, TimeoutSec: 900},
			{H: "H_C12_LinkedList", K: 34, U: 3, TimeoutSec: 900},
		},
		Thorough: []Job{
			{H: "H_C12_Conserve", K: 34, U: 3, TimeoutSec: 3000},
			{H: "H_C12_PushPushPop", K: 34, U: 3, TimeoutSec: 3000, QueryMs: 2400000},
		},
		Bounds:  "AtomicLIFO: 2 threads x 2 operations (push;push || pop;pop with the full set of linearizable outcomes enumerated in the harness, 2 pushers || 2 pops, push;pop || push;pop) with every interleaving of the individual atomic loads and compare-and-swaps; CAS retry loops unwound 3 times (unwinding query unsat); LinkedList: Push;Push || PushFront || Pop;PeekTail;Pop; conservation checked by draining at quiescence",
		Outside: "more than 4 operations / 3 threads; ABA under manual node reuse (nodes are garbage collected)",
	}
	plans["C15"] = Plan{
		Quick: []Job{
			{H: "H_C15_Swap", K: 34, U: 3, TimeoutSec: 900},
			{H: "H_C15_Waiters", K: 34, U: 3, TimeoutSec: 900},
			{H: "H_C15_Equal", K: 30, U: 3},
			{H: "H_C15_EqualEmpty", K: 30, U: 3, Covers: 1},
		},
		Bounds:  "2 SwapValue incrementers + 1 SetValue + 1 WaitValueChange waiter; writer + WaitValue (cancellable at any moment) + WaitValueWithValidator with an error channel; custom equality (WaitValueChange, and WaitValueEmpty with a non-zero value that equals the zero value); K<=34, U=3",
		Outside: "more than 3 writers / 2 waiters",
	}
	plans["C16"] = Plan{
		Quick: []Job{
			{H: "H_C16_OnceTwo", K: 34, U: 2, Preempt: 1, TimeoutSec: 700, QueryMs: 300000},
			{H: "H_C16_OnceCancel", K: 34, U: 2, Preempt: 1, Covers: 1, TimeoutSec: 700, QueryMs: 300000},
			{H: "H_C16_OnceRetry", K: 40, U: 3, TimeoutSec: 900},
			{H: "H_C16_Memo", K: 34, U: 3},
			{H: "H_C16_OnceCancelErr", K: 34, U: 2, Preempt: 1, Covers: 1, TimeoutSec: 700, QueryMs: 300000},
		},
		Thorough: []Job{
			{H: "H_C16_Once2", K: 30, U: 2, Preempt: 1, TimeoutSec: 3000, QueryMs: 2500000},
			{H: "H_C16_Once2", K: 34, U: 3, Preempt: 2, TimeoutSec: 6000, QueryMs: 5000000},
			{H: "H_C16_Once", K: 40, U: 3, Preempt: 1, TimeoutSec: 6000, QueryMs: 5000000},
		},
		Bounds:  "promise.Once: 2 concurrent Resolve callers with a function that fails on its first call or not (symbolic); initiating caller cancellable at any moment + a live caller; sequential error-retry-success-kept; schedules with at most 1 preemption in the quick tier (thorough: 2; and the three-thread scenarios Once2/Once), Resolve's retry loop unwound twice (unwinding query reported); memo: 3 concurrent callers, success or error, all schedules",
		Outside: "more than 2 concurrent Once callers in the quick tier (thorough: 3); more than one failing call",
	}
	plans["C18"] = Plan{
		Quick: []Job{
			{H: "H_C18_Limit1Small", K: 34, U: 3, Preempt: 1, TimeoutSec: 900},
			{H: "H_C18_Unlimited", K: 34, U: 3},
			{H: "H_C18_WaitIdleErrCh", K: 34, U: 3, Preempt: 1},
			{H: "H_C18_Limit2Small", K: 34, U: 4, Preempt: 2, TimeoutSec: 700, QueryMs: 400000},
			{H: "H_C18_InitialWatch", K: 34, U: 4},
		},
		Thorough: []Job{
			{H: "H_C18_Limit1Small", K: 34, U: 3, Preempt: 2, Prune: true, TimeoutSec: 3000},
			{H: "H_C18_Limit1", K: 44, U: 4, Preempt: 1, TimeoutSec: 6000, QueryMs: 5000000},
			{H: "H_C18_Limit2Small", K: 34, U: 4, TimeoutSec: 6000, QueryMs: 5000000},
			{H: "H_C18_Limit2", K: 44, U: 4, Preempt: 1, TimeoutSec: 6000, QueryMs: 5000000},
		},
		Bounds:  "limit 1: job 0 enqueued, then Enqueue(1 job)+WaitIdle || Enqueue(1 job), schedules with at most 1 preemption (thorough: 2; and the larger limit-1 / limit-2+WatchState scenarios); limit 2: Enqueue(3 jobs)+WaitIdle, at most 2 preemptions (thorough: all schedules); limit 1 with two initial elements + WatchState until idle, all schedules; unlimited: Enqueue(2) + WaitIdle, all schedules; jobs of arbitrary relative duration (they finish whenever scheduled); K<=34",
		Outside: "more than 4 jobs, more than 2 producers",
	}

	plans["C07"] = Plan{
		Quick: []Job{
			{H: "H_C07_RetrySurvivesSetKey", K: 48, U: 3, Prune: true, Preempt: 2, TimeoutSec: 1200},
			{H: "H_C07_RestartOverlap", K: 40, U: 3, Prune: true, Preempt: 2, TimeoutSec: 1200},
			{H: "H_C07_ResetDuringRetry", K: 48, U: 3, Prune: true, Preempt: 2, TimeoutSec: 1200},
			{H: "H_C07_RemoveDelayRestart", K: 48, U: 3, Prune: true, Preempt: 2, Covers: 1, TimeoutSec: 1200},
		},
		Thorough: []Job{
			{H: "H_C07_RetrySurvivesSetKey", K: 52, U: 3, Prune: true, Preempt: 4, TimeoutSec: 6000, QueryMs: 3000000},
			{H: "H_C07_RestartOverlap", K: 44, U: 3, Prune: true, Preempt: 3, TimeoutSec: 6000, QueryMs: 3000000},
			{H: "H_C07_ResetDuringRetry", K: 52, U: 3, Prune: true, Preempt: 4, TimeoutSec: 6000, QueryMs: 3000000},
		},
		Bounds:  "(thorough: the same scenarios with 3-4 preemptions) one key; (a) routine fails once, SetKey(k,false) (symbolic) lands while the retry timer is pending, then the backoff interval passes; (b) two RestartRoutine calls inside one exit latency, then ClearContext; schedules with at most 2 preemptions; K=40-48",
		Outside: "more than one key, more than 2 restarts",
	}
	plans["C08"] = Plan{
		Quick: []Job{
			{H: "H_C08_Error", K: 40, U: 3, Prune: true},
			{H: "H_C08_Script", K: 60, U: 3, Prune: true, Preempt: 2, Fixes: []string{"op0=0,op1=4"}, TimeoutSec: 1200},
			{H: "H_C08_Script", K: 60, U: 3, Prune: true, Preempt: 2, Fixes: []string{"op0=3,op1=0"}, TimeoutSec: 1200},
			{H: "H_C08_Script", K: 60, U: 3, Prune: true, Preempt: 2, Fixes: []string{"op0=0,op1=2"}, TimeoutSec: 1200},
			// SetContext(B), then the FIRST value's released() callback again (stale): one preemption
			{H: "H_C08_Script", K: 48, U: 3, Prune: true, Preempt: 1, Fixes: []string{"op0=2,op1=5"}, TimeoutSec: 1200},
			{H: "H_C08_Script", K: 60, U: 3, Prune: true, Preempt: 2, Fixes: []string{"op0=2,op1=0"}, TimeoutSec: 1200},
			{H: "H_C08_Script", K: 60, U: 3, Prune: true, Preempt: 2, Fixes: []string{"op0=0,op1=3"}, TimeoutSec: 1200},
		},
		Thorough: cat(
			[]Job{
				{H: "H_C08_ReleasedRace", K: 60, U: 3, Prune: true, Preempt: 2, TimeoutSec: 3000},
				{H: "H_C08_Slow", K: 60, U: 3, Prune: true, Preempt: 2, TimeoutSec: 3000},
			},
			split(Job{H: "H_C08_Script", K: 60, U: 3, Prune: true, Preempt: 2, Fixes: scriptCases(6), TimeoutSec: 6000}, 8),
		),
		Bounds:  "RefCount with a target container and release functions that check the obligations; quick: resolver error + 6 scripts of 2 operations out of {release ref, add+release second ref, SetContext(B), ClearContext, released(), the first value's released() again (stale)} with keep-unreferenced symbolic, a value being released only after an invalidating event; thorough: all 36 scripts, released() racing the last Release, slow resolver superseded; schedules with at most 2 preemptions; K=60",
		Outside: "more than 2 references / 3 resolver calls; 'shortly after' is read as 'by quiescence'",
	}
	plans["C13"] = Plan{
		Quick: []Job{
			{H: "H_C13_IO", K: 40, U: 3, Race: true, Only: "race/"},
			{H: "H_C13_Keyed", K: 40, U: 3, Race: true, Only: "race/", Prune: true, Preempt: 2},
			{H: "H_C13_KeyedRef", K: 40, U: 3, Race: true, Only: "race/", Prune: true, Preempt: 2},
			{H: "H_C13_RefCount", K: 40, U: 3, Race: true, Only: "race/", Prune: true, Preempt: 2},
			{H: "H_C13_Routine", K: 40, U: 3, Race: true, Only: "race/", Prune: true, Preempt: 2},
			{H: "H_C17_ErrNotLost", K: 24, U: 3, Race: true, Only: "race/"},
			{H: "H_C11_Promise_Await", K: 34, U: 3, Race: true, Only: "race/"},
			{H: "H_C15_Swap", K: 34, U: 3, Race: true, Only: "race/"},
			{H: "H_C12_LinkedList", K: 34, U: 3, Race: true, Only: "race/"},
			{H: "H_C16_Memo", K: 34, U: 3, Race: true, Only: "race/"},
			{H: "H_C03_WaitErr", K: 30, U: 3, Race: true, Only: "race/"},
			{H: "H_C01_Mutex3", K: 26, U: 3, Race: true, Only: "race/"},
			{H: "H_C05_TwoDrivers", K: 44, U: 4, Race: true, Only: "race/", Prune: true, Preempt: 2, TimeoutSec: 900},
			{H: "H_C10_WaitWithReleased", K: 36, U: 3, Race: true, Only: "race/", Prune: true, TimeoutSec: 900},
			{H: "H_C18_Unlimited", K: 34, U: 3, Race: true, Only: "race/"},
			{H: "H_C18_InitialWatch", K: 34, U: 4, Race: true, Only: "race/"},
			{H: "H_C16_OnceTwo", K: 34, U: 2, Preempt: 1, Race: true, Only: "race/"},
			{H: "H_C01_RW_2R1W", K: 26, U: 3, Race: true, Only: "race/"},
			{H: "H_C11_ReplaceBack", K: 40, U: 3, Race: true, Only: "race/"},
			{H: "H_C15_Waiters", K: 34, U: 3, Race: true, Only: "race/"},
		},
		Thorough: []Job{
			{H: "H_C12_PushPushPop", K: 34, U: 3, Race: true, Only: "race/", TimeoutSec: 3000},
			{H: "H_C11_Container", K: 34, U: 3, Race: true, Only: "race/", TimeoutSec: 3000},
			{H: "H_C18_Limit1Small", K: 34, U: 3, Preempt: 1, Race: true, Only: "race/", TimeoutSec: 3000},
			{H: "H_C09_Delivered", K: 80, U: 3, Prune: true, Preempt: 2, Race: true, Only: "race/", TimeoutSec: 3000},
			{H: "H_C08_Script", K: 60, U: 3, Prune: true, Preempt: 2, Race: true, Only: "race/", Fixes: []string{"op0=0,op1=4"}, TimeoutSec: 3000},
			{H: "H_C07_ResetDuringRetry", K: 40, U: 3, Prune: true, Preempt: 2, Race: true, Only: "race/", TimeoutSec: 3000},
			{H: "H_C04_State2", K: 44, U: 3, Prune: true, Preempt: 1, Race: true, Only: "race/", TimeoutSec: 3000},
		},
		Bounds:  "(second group, added later: ConcurrentQueue with initial elements + WatchState, promise.Once with two callers, RWMutex 2 readers + writer, PromiseContainer replacement A-B-A with an awaiter, CContainer writer + three kinds of waiters; thorough adds AtomicLIFO push/push/pop, PromiseContainer, limit-1 queue with two producers, RefCount delivery, a RefCount script, Keyed reset during retry, StateRoutineContainer SetState x2) client programs: the dedicated H_C13_* harnesses (iocloser Read/Write||Close, SizeReadWriter Read||Write||TotalSize, Keyed Set||Remove+GetKeys, KeyedRefCount AddKeyRef||Release||RemoveKey, RefCount AddRef/Release||SetContext, RoutineContainer SetRoutine||SetContext||RestartRoutine) plus one harness of each other concurrent type (ccall, Promise, CContainer, LinkedList, MemoizeFunc, Broadcast, csync.Mutex, StateRoutineContainer, WaitWithReleased, ConcurrentQueue); violation = a schedule with two co-pending conflicting plain accesses to one cell, at least one in library code",
		Outside: "'every client program' is this finite set of programs; weak-memory effects (the model is sequentially consistent: an SC execution with two co-enabled conflicting accesses exists iff the program has a data race)",
	}
	plans["C09"] = Plan{
		Quick: []Job{
			{H: "H_C09_Overlap", K: 30, U: 3, Prune: true, Preempt: 2, TimeoutSec: 900},
			{H: "H_C09_NilCb", K: 24, U: 3, Prune: true, TimeoutSec: 900},
			{H: "H_C09_StopStart", K: 40, U: 3, Prune: true, Preempt: 2, TimeoutSec: 900},
			{H: "H_C09_Delivered", K: 80, U: 3, Prune: true, Preempt: 2, Covers: 1, TimeoutSec: 900},
			{H: "H_C09_EarlyReleased", K: 40, U: 3, Prune: true, Preempt: 2, Covers: 1, TimeoutSec: 900},
		},
		Thorough: []Job{
			{H: "H_C09_Overlap", K: 34, U: 3, Prune: true, Preempt: 4, TimeoutSec: 6000, QueryMs: 3000000},
			{H: "H_C09_StopStart", K: 44, U: 3, Prune: true, Preempt: 3, TimeoutSec: 6000, QueryMs: 3000000},
			{H: "H_C09_Delivered", K: 84, U: 3, Prune: true, Preempt: 3, TimeoutSec: 6000, QueryMs: 3000000},
		},
		Bounds:  "one reference + two context replacements inside one resolver latency; AddRef(nil) concurrent with resolution; stop/start inside one resolver latency; delivery: result of the resolver in both target containers and told to an early and a late reference, released() -> resolved afresh (second call succeeds or fails, symbolic), last release empties the containers (K=80, at most 2 preemptions); K<=40 otherwise; thorough: the same scenarios with 3-4 preemptions",
		Outside: "more than 3 resolver calls; more than 2 references",
	}
	plans["C10"] = Plan{
		Quick: []Job{
			{H: "H_C10_WaitWithReleased", K: 36, U: 3, Prune: true, TimeoutSec: 900},
			{H: "H_C10_AccessSimple", K: 60, U: 3, Prune: true, Preempt: 2, Covers: 1, TimeoutSec: 770},
			{H: "H_C10_ResolveWithReleased", K: 66, U: 3, Prune: true, Preempt: 1, Covers: 1, TimeoutSec: 770, QueryMs: 400000},
			{H: "H_C10_Resolve", K: 66, U: 3, Prune: true, Preempt: 1, Covers: 1, TimeoutSec: 770, QueryMs: 400000},
		},
		Thorough: []Job{
			{H: "H_C10_ResolveWithReleased", K: 66, U: 3, Prune: true, Preempt: 2, TimeoutSec: 3000, QueryMs: 2000000},
			{H: "H_C10_Resolve", K: 66, U: 3, Prune: true, Preempt: 2, TimeoutSec: 3000, QueryMs: 2000000},
			{H: "H_C10_ResolveWithReleased", K: 84, U: 3, Prune: true, Preempt: 3, TimeoutSec: 6000, QueryMs: 3000000},
			{H: "H_C10_Resolve", K: 84, U: 3, Prune: true, Preempt: 3, TimeoutSec: 6000, QueryMs: 3000000},
			{H: "H_C10_AccessInvalidate", K: 64, U: 3, Prune: true, Preempt: 1, TimeoutSec: 9000, QueryMs: 6000000, Weight: 2},
			{H: "H_C10_AccessPrompt", K: 64, U: 3, Prune: true, Preempt: 1, TimeoutSec: 9000, QueryMs: 6000000, Weight: 2},
		},
		Bounds:  "Access without invalidation: callback invoked once with the resolved value, Access returns the callback's result / the resolver's error, its reference is released afterwards (resolver and callback outcomes symbolic, K=60, at most 2 preemptions); value already resolved; WaitWithReleased concurrent with one invalidation (SetContext), K=36; a consumer obtaining the value through ResolveWithReleased / Resolve, holding it, optionally invalidated by the resolver's released() while holding (symbolic), then releasing: value not released while referenced unless invalidated, released callback exactly once after an invalidation and never otherwise, every value released exactly once (K=66, at most 1 preemption; thorough: 2 preemptions, and K=84 with 3). Thorough: Access whose first callback invocation invalidates its own value and waits until the invalidation is delivered (must be re-invoked with the replacement; must not return the stale invocation's result; variant AccessPrompt: the replacement is not resolved until the first invocation has seen its context cancelled), schedules with at most 1 preemption, K=64 (encoding alone takes ~13 min)",
		Outside: "more than one invalidation; an independent invalidator thread racing Access (unrolling does not finish)",
	}

	boundary := []int{0, 1, 2, 30, 31, 32, 33, 62, 63, 64, 65}
	var unpadLens []string
	for l := 0; l <= 72; l++ {
		unpadLens = append(unpadLens, fmt.Sprintf("x.len=%d,x.cap=%d", l, l))
	}
	plans["C19"] = Plan{
		Quick: cat(
			split(Job{H: "H_C19_PadRoundTrip", K: 2, U: 120, Fixes: padCases(0, boundary)}, 3),
			split(Job{H: "H_C19_UnpadAny", K: 2, U: 80, Fixes: unpadLens}, 2),
			split(Job{H: "H_C19_Prefix2", K: 2, U: 8, Fixes: lenCases([]string{"a", "b"}, 4)}, 2),
			[]Job{{H: "H_C19_Prefix3", K: 2, U: 8, Fixes: lenCases([]string{"a", "b", "d"}, 2)}},
			[]Job{{H: "H_C19_TrimPrefix", K: 2, U: 8, Fixes: lenCases([]string{"a", "b"}, 3)}},
			split(Job{H: "H_C19_PrngChunks", K: 2, U: 24, Fixes: chunkCases(4)}, 2),
		),
		Thorough: cat(
			split(Job{H: "H_C19_PadRoundTrip", K: 2, U: 120, Fixes: padCases(72, nil), TimeoutSec: 3000}, 6),
			split(Job{H: "H_C19_Prefix3", K: 2, U: 8, Fixes: lenCases([]string{"a", "b", "d"}, 3), TimeoutSec: 3000}, 3),
			split(Job{H: "H_C19_PrngChunks", K: 2, U: 24, Fixes: chunkCases(1), TimeoutSec: 3000}, 5),
		),
		Bounds:  "padding: message lengths 0..72 (quick: the 11 lengths around the 32/64-byte boundaries) x 5 capacities each, UnpadInPlace on arbitrary buffers of 0..72 bytes; commonprefix: 2 strings of 0..4 bytes, 3 strings of 0..2 (thorough 0..3) bytes, all byte values; prng reader: 20 bytes read in up to 4 chunks (quick: chunk sizes in steps of 4; thorough: every chunking), arbitrary 64-bit source values. Lengths are enumerated (case split), every query is over all byte contents.",
		Outside: "longer inputs; SHA-256 / ChaCha8 internals of BuildSeededRand (the reader's chunk independence is checked over an arbitrary source instead); more than 3 strings",
	}

	plans["C20"] = Plan{
		Quick: cat(
			[]Job{
				{H: "H_C20_SeekStep", K: 2, U: 4, Covers: 2},
				{H: "H_C20_ReadStep", K: 2, U: 4},
				{H: "H_C20_Sizer", K: 2, U: 6},
				{H: "H_C20_Closer", K: 2, U: 6},
			},
			split(Job{H: "H_C20_KeyedListStep", K: 2, U: 5, MapCap: 4, Fixes: uniqCases(), QueryMs: 200000}, 8),
			split(Job{H: "H_C20_KeyedMapStep", K: 2, U: 5, MapCap: 4, Fixes: []string{"op=0,n=0", "op=0,n=1", "op=0,n=2", "op=1,n=0", "op=1,n=1", "op=1,n=2", "op=2,n=0", "op=2,n=1", "op=2,n=2"}, QueryMs: 200000}, 3),
			split(Job{H: "H_C20_Proxy", K: 30, U: 5, Fixes: []string{"na=2,nb=1,a2=0,b2=0,bblock=1", "na=2,nb=2,a2=1,b2=0,bblock=0", "na=0,nb=2,a2=0,b2=1,bblock=1"}, TimeoutSec: 900}, 3),
		),
		Thorough: split(Job{H: "H_C20_Proxy", K: 30, U: 5, Fixes: proxyCases(), TimeoutSec: 6000}, 12),
		Bounds:  "ioseek: one inductive step (Seek or Read) from an arbitrary valid state, all of size/position/offset full 64-bit, buffer length 0..8; iosizer: 4 calls (Read/Write symbolic) with arbitrary (n, err), buffers <= 8 bytes; iocloser: all histories of 4 operations over {Read, Write, Close(reader), Close(writer)}; unique.KeyedList: one inductive step from an arbitrary list over 3 keys, 4 operation kinds x 0..3 symbolic values (duplicates allowed), exact and coarse cmp; unique.KeyedMap: one inductive step, 3 operation kinds x 0..2 symbolic entries; ioproxy: two scripted streams of 0..2 bytes handed out in chunks of 1 or 2 bytes (stream b either ends with EOF or blocks until closed; quick: 3 case splits, thorough: all 72), every interleaving of the two pumps, io.CopyBuffer interpreted from the standard library's source.",
		Outside: "iosizer counts above 2^32-1 per call (the library drops them; buffers <= 8 bytes here); more than 3 keys; ioproxy streams longer than 2 bytes, short writes and write errors",
	}
}
