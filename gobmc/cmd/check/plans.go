package main

// Job is one engine run (or one case-split batch of runs) of a harness.
type Job struct {
	H          string   // harness function in /verif/gobmc/harness
	K, U       int      // global steps, loop unwinding
	MapCap     int      // slots per map (0 = default 3)
	Prune      bool     // solver-assisted pruning of infeasible configurations
	Race       bool     // add the data-race violation class
	Only       string   // restrict the violation disjunction
	Covers     int      // cover witnesses to extract and replay natively
	Fixes      []string // case splits (one engine run each, same process)
	Solver     string
	QueryMs    int
	MaxTerms   int
	TimeoutSec int
	Weight     int // cores reserved (memory-heavy jobs)
}

type Plan struct {
	Quick, Thorough []Job
	Bounds          string   // stated bounds
	Outside         string   // what lies outside the claim
	Assumptions     []string // harness-level assumptions
}

var plans = map[string]Plan{}

func init() {
	plans["C17"] = Plan{
		Quick: []Job{
			{H: "H_C17_ErrNotLost", K: 24, U: 3},
		},
		Bounds:  "2 functions; K=24 global steps; U=3",
		Outside: "more than 3 functions",
	}
}
