package main

import "fmt"

// Job is one engine run (or one case-split batch of runs) of a harness.
type Job struct {
	H          string   // harness function in /verif/gobmc/harness
	K, U       int      // global steps, loop unwinding
	MapCap     int      // slots per map (0 = default 3)
	Prune      bool     // solver-assisted pruning of infeasible configurations
	Race       bool     // add the data-race violation class
	Only       string   // restrict the violation disjunction
	Covers     int      // cover witnesses to extract and replay natively
	Fixes      []string // case splits (one engine run each, same process)
	Solver     string
	QueryMs    int
	MaxTerms   int
	TimeoutSec int
	Weight     int // cores reserved (memory-heavy jobs)
}

type Plan struct {
	Quick, Thorough []Job
	Bounds          string   // stated bounds
	Outside         string   // what lies outside the claim
	Assumptions     []string // harness-level assumptions
}

var plans = map[string]Plan{}

// split distributes the case splits of a job over n processes.
func split(j Job, n int) []Job {
	if len(j.Fixes) <= 1 || n <= 1 {
		return []Job{j}
	}
	var out []Job
	for i := 0; i < n; i++ {
		jj := j
		jj.Fixes = nil
		for k := i; k < len(j.Fixes); k += n {
			jj.Fixes = append(jj.Fixes, j.Fixes[k])
		}
		if len(jj.Fixes) > 0 {
			out = append(out, jj)
		}
	}
	return out
}

func padCases(maxLen int, lens []int) []string {
	var out []string
	add := func(l, c int) {
		if c >= l {
			out = append(out, fmt.Sprintf("x.len=%d,x.cap=%d", l, c))
		}
	}
	if lens == nil {
		for l := 0; l <= maxLen; l++ {
			lens = append(lens, l)
		}
	}
	for _, l := range lens {
		padded := ((l + 1 + 31) / 32) * 32
		seen := map[int]bool{}
		for _, c := range []int{l, l + 1, padded - 1, padded, padded + 8} {
			if !seen[c] {
				seen[c] = true
				add(l, c)
			}
		}
	}
	return out
}

func lenCases(names []string, max int) []string {
	var out []string
	var rec func(i int, cur string)
	rec = func(i int, cur string) {
		if i == len(names) {
			out = append(out, cur)
			return
		}
		for l := 0; l <= max; l++ {
			s := fmt.Sprintf("%s.len=%d", names[i], l)
			if cur != "" {
				s = cur + "," + s
			}
			rec(i+1, s)
		}
	}
	rec(0, "")
	return out
}

func chunkCases(step int) []string {
	var out []string
	for c0 := 0; c0 <= 20; c0 += step {
		for c1 := 0; c0+c1 <= 20; c1 += step {
			for c2 := 0; c0+c1+c2 <= 20; c2 += step {
				out = append(out, fmt.Sprintf("c0=%d,c1=%d,c2=%d", c0, c1, c2))
			}
		}
	}
	return out
}

func uniqCases() []string {
	var out []string
	for op := 0; op <= 3; op++ {
		for n := 0; n <= 3; n++ {
			out = append(out, fmt.Sprintf("op=%d,n=%d", op, n))
		}
	}
	return out
}

func cat(js ...[]Job) []Job {
	var out []Job
	for _, j := range js {
		out = append(out, j...)
	}
	return out
}

func init() {
	plans["C17"] = Plan{
		Quick: []Job{
			{H: "H_C17_ErrNotLost", K: 24, U: 3},
			{H: "H_C17_Small", K: 12, U: 3},
			{H: "H_C17_Two", K: 30, U: 3, Covers: 3, TimeoutSec: 900},
		},
		Thorough: []Job{
			{H: "H_C17_Three", K: 40, U: 4, TimeoutSec: 3000, QueryMs: 2400000},
		},
		Bounds:  "0, 1, 2 (thorough: 3) entries, each of symbolic kind {nil entry, returns nil, returns its own error, waits for its context then returns Canceled}; optional cancellation of the caller's context at any point; K<=30 (40) global steps, U=3 (4)",
		Outside: "more than 3 functions; functions that panic",
	}

	plans["C01"] = Plan{
		Quick: []Job{
			{H: "H_C01_Mutex3", K: 26, U: 3, Covers: 2, Only: "assert/|panic/"},
			{H: "H_C01_MutexLocker", K: 26, U: 3, Only: "assert/|panic/"},
			{H: "H_C01_RW_2R1W", K: 26, U: 3, Covers: 1, Only: "assert/|panic/"},
			{H: "H_C01_RW_1R2W", K: 26, U: 3, Covers: 1, Only: "assert/|panic/"},
			{H: "H_C01_RWLocker", K: 26, U: 3, Only: "assert/|panic/", TimeoutSec: 900},
		},
		Thorough: []Job{
			{H: "H_C01_RWSym2", K: 24, U: 3, Only: "assert/|panic/", TimeoutSec: 3000, QueryMs: 2400000},
			{H: "H_C01_RWSym3", K: 30, U: 3, Only: "assert/|panic/", TimeoutSec: 7000, QueryMs: 6000000},
		},
		Bounds:  "3 role-specialised goroutines per scenario (Mutex: cancellable Lock / TryLock+double release / Lock+double release; Locker adapters; RWMutex: 2 readers+1 writer and 1 reader+2 writers mixing cancellable Lock, TryLock and double release; Locker/RLocker), one acquire each, cancellation at any moment (environment event); K=26 global steps, U=3. Thorough: 2 and 3 actors whose API, mode, cancellation and double release are all symbolic.",
		Outside: "more than 3 goroutines, more than one acquire per goroutine",
	}
	plans["C02"] = Plan{
		Quick: []Job{
			{H: "H_C02_LongReader", K: 26, U: 3, Covers: 1},
			{H: "H_C02_NoTrace", K: 28, U: 3, Covers: 2},
			{H: "H_C02_MutexNoTrace", K: 28, U: 3, Covers: 1},
			{H: "H_C02_WriterPreference", K: 26, U: 3, TimeoutSec: 900},
			{H: "H_C01_Mutex3", K: 26, U: 3, Only: "stuck/"},
			{H: "H_C01_RW_2R1W", K: 26, U: 3, Only: "stuck/"},
			{H: "H_C01_RW_1R2W", K: 26, U: 3, Only: "stuck/"},
		},
		Thorough: []Job{
			{H: "H_C01_RWSym3", K: 30, U: 3, Only: "stuck/", TimeoutSec: 7000, QueryMs: 6000000},
		},
		Bounds:  "3-4 goroutines per scenario: long-lived reader + cancelled write-waiter + late reader; holder + cancellable writer + cancellable reader followed by TryLock probes at quiescence (no trace); Mutex analogue; writer preference with ghost flags; plus the lost-wake-up (stuck at quiescence) class of the three C01 scenarios. K=26-28, U=3.",
		Outside: "fairness among several grantable waiters; more than 4 goroutines",
	}
	plans["C03"] = Plan{
		Quick: []Job{
			{H: "H_C03_Wait", K: 30, U: 3, Covers: 2},
			{H: "H_C03_WaitErr", K: 30, U: 3, Covers: 1},
			{H: "H_C03_Generations", K: 20, U: 3},
		},
		Bounds:  "1-2 waiters, 1-2 broadcasting critical sections through HoldLock / TryHoldLock / HoldLockMaybeAsync (incl. its goroutine slow path), cancellation of the waiter at any moment; generation harness with a concurrent third party; K<=30, U=3",
		Outside: "more than 2 waiters / 3 broadcasters",
	}

	boundary := []int{0, 1, 2, 30, 31, 32, 33, 62, 63, 64, 65}
	var unpadLens []string
	for l := 0; l <= 72; l++ {
		unpadLens = append(unpadLens, fmt.Sprintf("x.len=%d,x.cap=%d", l, l))
	}
	plans["C19"] = Plan{
		Quick: cat(
			split(Job{H: "H_C19_PadRoundTrip", K: 2, U: 120, Fixes: padCases(0, boundary)}, 3),
			split(Job{H: "H_C19_UnpadAny", K: 2, U: 80, Fixes: unpadLens}, 2),
			split(Job{H: "H_C19_Prefix2", K: 2, U: 8, Fixes: lenCases([]string{"a", "b"}, 4)}, 2),
			[]Job{{H: "H_C19_Prefix3", K: 2, U: 8, Fixes: lenCases([]string{"a", "b", "d"}, 2)}},
			[]Job{{H: "H_C19_TrimPrefix", K: 2, U: 8, Fixes: lenCases([]string{"a", "b"}, 3)}},
			split(Job{H: "H_C19_PrngChunks", K: 2, U: 24, Fixes: chunkCases(4)}, 2),
		),
		Thorough: cat(
			split(Job{H: "H_C19_PadRoundTrip", K: 2, U: 120, Fixes: padCases(72, nil), TimeoutSec: 3000}, 6),
			split(Job{H: "H_C19_Prefix3", K: 2, U: 8, Fixes: lenCases([]string{"a", "b", "d"}, 3), TimeoutSec: 3000}, 3),
			split(Job{H: "H_C19_PrngChunks", K: 2, U: 24, Fixes: chunkCases(1), TimeoutSec: 3000}, 5),
		),
		Bounds:  "padding: message lengths 0..72 (quick: the 11 lengths around the 32/64-byte boundaries) x 5 capacities each, UnpadInPlace on arbitrary buffers of 0..72 bytes; commonprefix: 2 strings of 0..4 bytes, 3 strings of 0..2 (thorough 0..3) bytes, all byte values; prng reader: 20 bytes read in up to 4 chunks (quick: chunk sizes in steps of 4; thorough: every chunking), arbitrary 64-bit source values. Lengths are enumerated (case split), every query is over all byte contents.",
		Outside: "longer inputs; SHA-256 / ChaCha8 internals of BuildSeededRand (the reader's chunk independence is checked over an arbitrary source instead); more than 3 strings",
	}

	plans["C20"] = Plan{
		Quick: cat(
			[]Job{
				{H: "H_C20_SeekStep", K: 2, U: 4, Covers: 2},
				{H: "H_C20_ReadStep", K: 2, U: 4},
				{H: "H_C20_Sizer", K: 2, U: 6},
				{H: "H_C20_Closer", K: 2, U: 6},
			},
			split(Job{H: "H_C20_KeyedListStep", K: 2, U: 5, MapCap: 4, Fixes: uniqCases(), QueryMs: 200000}, 8),
		),
		Bounds:  "ioseek: one inductive step (Seek or Read) from an arbitrary valid state, all of size/position/offset full 64-bit, buffer length 0..8; iosizer: 4 calls (Read/Write symbolic) with arbitrary (n, err), buffers <= 8 bytes; iocloser: all histories of 4 operations over {Read, Write, Close(reader), Close(writer)}; unique.KeyedList: one inductive step from an arbitrary list over 3 keys, 4 operation kinds x 0..3 symbolic values (duplicates allowed), exact and coarse cmp.",
		Outside: "iosizer counts above 2^32-1 per call (the library drops them; buffers <= 8 bytes here); more than 3 keys; ioproxy and KeyedMap (see DESIGN.md)",
	}
}
