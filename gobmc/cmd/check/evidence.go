package main

import (
	"encoding/json"
	"fmt"
	"os"
	"path/filepath"
	"sort"
	"strings"

	"gobmc/report"
	"gobmc/vsched"
)

type jobEv struct {
	Harness   string            `json:"harness"`
	Fix       string            `json:"case_split,omitempty"`
	K         int               `json:"K_global_steps"`
	U         int               `json:"U_loop_unwinding"`
	MapCap    int               `json:"map_slots"`
	Threads   int               `json:"threads"`
	Terms     int               `json:"terms"`
	States    int               `json:"states"`
	Trans     int               `json:"transitions"`
	Sites     int               `json:"violation_sites"`
	Bounds    map[string]string `json:"bound_sufficiency"`
	Covers    map[string]string `json:"covers,omitempty"`
	Status    string            `json:"status"`
	Reason    string            `json:"reason,omitempty"`
	Queries   int               `json:"queries"`
	EncSec    float64           `json:"encode_sec"`
	SolSec    float64           `json:"solver_sec"`
	Complete  bool              `json:"complete_for_harness"` // all bound-sufficiency queries unsat
	Violation []string          `json:"violations,omitempty"`
	Known     []string          `json:"known_findings,omitempty"`
}

type evidence struct {
	prop, tier string
	seed       int
	plan       Plan

	runs                                int
	nQueries, nUnsat, nSat, nOther      int
	nViol                               int
	states, trans                       int
	validated                           int
	solSec, encSec                      float64
	funcs, stubs                        map[string]bool
	jobs                                []jobEv
	samples                             []interface{}
	Inconclusive                        []string
	knownSeen                           map[string]bool
	byKind                              map[string]int
	unreproduced                        []string
	coverDiverged                       int
	nSplitJobs, nSplitCases, nSplitDone int
	nComplete                           int
}

func newEvidence(prop, tier string, seed int, plan Plan) *evidence {
	return &evidence{prop: prop, tier: tier, seed: seed, plan: plan, funcs: map[string]bool{}, stubs: map[string]bool{}, knownSeen: map[string]bool{}, byKind: map[string]int{}}
}

func (e *evidence) inconclusive(h, why string) {
	e.Inconclusive = append(e.Inconclusive, h+": "+why)
}

func (e *evidence) addReport(j Job, r *report.Report) {
	e.runs++
	je := jobEv{Harness: r.Harness, Fix: r.Fix, K: r.K, U: r.U, MapCap: r.MapCap, Threads: r.Threads, Terms: r.Terms, States: r.States, Trans: r.Firings,
		Sites: r.Sites, Bounds: r.Bounds, Covers: r.Covers, Status: r.Status, Reason: r.Reason, Queries: len(r.Queries), EncSec: round2(r.EncSec), SolSec: round2(r.SolSec)}
	je.Complete = r.Status == "ok"
	for _, b := range r.Bounds {
		if b != "unsat" {
			je.Complete = false
		}
	}
	for _, q := range r.Queries {
		e.nQueries++
		e.byKind[q.Kind+":"+q.Result]++
		switch q.Result {
		case "unsat":
			e.nUnsat++
		case "sat":
			e.nSat++
		default:
			e.nOther++
		}
	}
	if je.Complete {
		e.nComplete++
	}
	for _, s := range r.Known {
		je.Known = append(je.Known, s.String())
	}
	for _, v := range r.Violations {
		je.Violation = append(je.Violation, v.Trace.Violation)
	}
	e.states += r.States
	e.trans += r.Firings
	e.solSec += r.SolSec
	e.encSec += r.EncSec
	for _, f := range r.Functions {
		e.funcs[f] = true
	}
	for _, f := range r.Stubs {
		e.stubs[f] = true
	}
	if r.Status != "ok" {
		e.inconclusive(r.Harness+" "+r.Fix, r.Reason)
	}
	// keep per-job records compact when a job is a large case split
	if len(j.Fixes) > 8 {
		e.nSplitCases++
		if je.Complete && len(je.Violation) == 0 {
			e.nSplitDone++
			if e.nSplitCases%40 != 1 {
				return
			}
		}
	}
	e.jobs = append(e.jobs, je)
	if len(e.samples) < 6 && len(r.Queries) > 0 {
		var qs []string
		for i, q := range r.Queries {
			if i >= 8 {
				qs = append(qs, fmt.Sprintf("... %d more", len(r.Queries)-i))
				break
			}
			qs = append(qs, fmt.Sprintf("%s: %s [%s, %.2fs]", q.Kind, q.Name, q.Result, q.Sec))
		}
		e.samples = append(e.samples, map[string]interface{}{"kind": "obligations of one engine run", "harness": r.Harness, "case_split": r.Fix, "K": r.K, "U": r.U, "queries": qs})
	}
}

func (e *evidence) known(f Finding, h string) { e.knownSeen[f.Site+" in "+h] = true }

func traceSample(kind string, h string, tr *vsched.Trace, native string) map[string]interface{} {
	var steps []string
	for i, s := range tr.Steps {
		if i >= 40 {
			steps = append(steps, fmt.Sprintf("... %d more steps", len(tr.Steps)-i))
			break
		}
		steps = append(steps, fmt.Sprintf("T%d %s %s", s.Th, shortPos(s.Pos), s.Op))
	}
	m := map[string]interface{}{"kind": kind, "harness": h, "what": tr.Violation, "schedule": steps, "native_replay": native}
	if len(tr.Inputs) > 0 {
		in := map[string][]int64{}
		n := 0
		for k, v := range tr.Inputs {
			if strings.HasPrefix(k, "nd!") && n < 24 {
				in[k] = v
				n++
			}
		}
		m["inputs"] = in
	}
	return m
}

func (e *evidence) violation(r *report.Report, v report.Violation, rr replayResult) {
	if rr.Reproduced {
		e.nViol++
		e.validated++
	} else {
		e.unreproduced = append(e.unreproduced, r.Harness+": "+v.Trace.Violation+" :: "+rr.Detail)
	}
	e.samples = append(e.samples, traceSample("counterexample", r.Harness, v.Trace, rr.Detail))
}

func (e *evidence) coverReplay(r *report.Report, tr *vsched.Trace, rr replayResult) {
	if rr.Completed {
		e.validated++
	} else {
		e.coverDiverged++
	}
	if len(e.samples) < 10 {
		e.samples = append(e.samples, traceSample("cover witness (replayed natively)", r.Harness, tr, rr.Detail))
	}
}

func round2(f float64) float64 { return float64(int(f*100+0.5)) / 100 }

func shortPos(p string) string {
	p = strings.TrimPrefix(p, "/repo/")
	p = strings.TrimPrefix(p, "/verif/gobmc/")
	return p
}

func (e *evidence) finish(wall float64, exit int) {
	var funcs, stubs []string
	for f := range e.funcs {
		if strings.Contains(f, "aperturerobotics/util") {
			funcs = append(funcs, strings.ReplaceAll(f, "github.com/aperturerobotics/util/", ""))
		}
	}
	sort.Strings(funcs)
	for f := range e.stubs {
		stubs = append(stubs, f)
	}
	sort.Strings(stubs)
	var known []string
	for k := range e.knownSeen {
		known = append(known, k)
	}
	sort.Strings(known)
	complete := e.nComplete
	if e.Inconclusive == nil {
		e.Inconclusive = []string{}
	}
	if e.unreproduced == nil {
		e.unreproduced = []string{}
	}
	if len(e.samples) == 0 {
		e.samples = append(e.samples, "no engine run completed")
	}
	states, trans := e.states, e.trans
	cov := map[string]interface{}{
		"states":                        states,
		"transitions":                   trans,
		"traces_validated_against_impl": e.validated,
		"samples":                       e.samples,
		"exhaustive":                    false,
		"explanation":                   "Bounded symbolic model checking of the real code: go/ssa of /repo's working tree is symbolically executed by gobmc together with the harnesses named below; schedule, inputs, select choices and environment cancellations are SMT variables (QF_BV); every verdict is a solver answer over all of their values inside the stated bounds. states = distinct (thread, control configuration) pairs encoded; transitions = guarded firings encoded. 'complete_for_harness' means the loop-unwinding, capacity and step-bound sufficiency queries were all unsat, i.e. the verdict covers every execution of that harness, not only those that fit the bounds.",
		"engine_runs":                   e.runs,
		"functions_encoded":             funcs,
		"queries":                       map[string]interface{}{"total": e.nQueries, "unsat": e.nUnsat, "sat": e.nSat, "unknown_or_timeout": e.nOther, "by_kind": e.byKind},
		"solver":                        "z3 4.8.12 (z3 -in, one incremental session per engine run, QF_BV)",
		"solver_sec":                    round2(e.solSec),
		"encode_sec":                    round2(e.encSec),
		"runs":                          e.jobs,
		"runs_complete_for_harness":     complete,
		"inconclusive":                  e.Inconclusive,
		"unreproduced_models":           e.unreproduced,
		"cover_replays_diverged":        e.coverDiverged,
		"known_findings_seen":           known,
		"bounds":                        e.plan.Bounds,
		"outside_the_claim":             e.plan.Outside,
	}
	if e.nSplitCases > 0 {
		cov["case_split_runs"] = map[string]int{"cases": e.nSplitCases, "complete_and_clean": e.nSplitDone}
	}
	if states < 1 {
		cov["states"] = 1 // schema minimum; see 'inconclusive'
		cov["transitions"] = 1
	}
	assume := append([]string{}, e.plan.Assumptions...)
	assume = append(assume,
		"environment models (DESIGN.md 1.5): sync.Mutex/RWMutex as a Boolean cell, sync/atomic as sequentially consistent RMW, channels as closed-flag+count, context.WithCancel/Done/Err as a cancellation flag with parent chain, time.AfterFunc as a timer that expires only at vrt.Advance(), errors.New / pkg/errors as fresh opaque non-nil errors",
		"sequentially consistent memory; arbitrary scheduler without fairness; liveness judged at quiescence",
		"stubs exercised in this run: "+strings.Join(stubs, ", "))
	out := map[string]interface{}{
		"property_id": e.prop,
		"tier":        e.tier,
		"seed":        e.seed,
		"level":       "model_checking",
		"coverage":    cov,
		"assumptions": assume,
		"wall_s":      round2(wall),
		"violations":  e.nViol,
	}
	b, _ := json.MarshalIndent(out, "", " ")
	dir := filepath.Join(verifRoot, "evidence")
	if d := os.Getenv("VERIF_EVIDENCE_DIR"); d != "" {
		dir = d // self-tests against seeded changes must not overwrite the real evidence
	}
	os.MkdirAll(dir, 0o755)
	os.WriteFile(filepath.Join(dir, e.prop+".json"), b, 0o644)
}
