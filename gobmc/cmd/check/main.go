// check decides one property: it runs the property's harness jobs through the gobmc engine
// (one subprocess per job, in parallel), filters known findings, replays every new
// counterexample against the natively compiled real code, writes the evidence file and prints
// the VIOLATION / KNOWN-FINDING lines.
package main

import (
	"encoding/json"
	"flag"
	"fmt"
	"os"
	"os/exec"
	"path/filepath"
	"sort"
	"strconv"
	"strings"
	"sync"
	"time"

	"gobmc/report"
)

const verifRoot = "/verif"
const modDir = "/verif/gobmc"

type Finding struct {
	Property string `json:"property"`
	Status   string `json:"status"` // open | fixed
	Harness  string `json:"harness,omitempty"`
	Site     string `json:"site"` // kind/id @pos-suffix
	What     string `json:"what"`
	Commit   string `json:"commit,omitempty"`
}

type jobResult struct {
	job     Job
	reports []*report.Report
	err     string
	wall    float64
}

func goEnv() []string {
	env := os.Environ()
	env = append(env, "GOFLAGS=-mod=mod", "GOPROXY=off", "GOSUMDB=off", "GOTOOLCHAIN=local", "CGO_ENABLED=0")
	return env
}

func loadFindings() []Finding {
	var f struct {
		Findings []Finding `json:"findings"`
	}
	b, err := os.ReadFile(filepath.Join(verifRoot, "known_findings.json"))
	if err != nil {
		return nil
	}
	if err := json.Unmarshal(b, &f); err != nil {
		fmt.Fprintln(os.Stderr, "known_findings.json:", err)
	}
	return f.Findings
}

// checkStart / deadlineSec: the quick tier must end well inside the 900 s that a check run on
// every change may take; jobs are cut off (their partial reports are still used) when the
// deadline is reached
var checkStart = time.Now()
var deadlineSec = 0

func runJob(j Job, known []string, scratch string, idx int, mut string) jobResult {
	t0 := time.Now()
	out := filepath.Join(scratch, fmt.Sprintf("job%d.json", idx))
	args := []string{"-q", "-hints", filepath.Join(modDir, "hints"), "-dir", modDir, "-h", j.H, "-K", strconv.Itoa(j.K), "-U", strconv.Itoa(j.U), "-json", out}
	if j.MapCap > 0 {
		args = append(args, "-mapcap", strconv.Itoa(j.MapCap))
	}
	if j.AppendCap > 0 {
		args = append(args, "-appendcap", strconv.Itoa(j.AppendCap))
	}
	if j.Prune {
		args = append(args, "-prune")
	}
	if j.Race {
		args = append(args, "-race")
	}
	if j.Spin {
		args = append(args, "-spin")
	}
	if j.Preempt > 0 {
		args = append(args, "-preempt", strconv.Itoa(j.Preempt))
	}
	if j.Only != "" {
		args = append(args, "-only", j.Only)
	}
	if j.Covers > 0 {
		args = append(args, "-covers", strconv.Itoa(j.Covers))
	}
	args = append(args, "-witness")
	if len(j.Fixes) > 0 {
		args = append(args, "-fixlist", strings.Join(j.Fixes, ";"))
	}
	if j.Solver != "" {
		args = append(args, "-solver", j.Solver)
	}
	if j.QueryMs > 0 {
		args = append(args, "-qms", strconv.Itoa(j.QueryMs))
	}
	if j.MaxTerms > 0 {
		args = append(args, "-maxterms", strconv.Itoa(j.MaxTerms))
	}
	if len(known) > 0 {
		args = append(args, "-known", strings.Join(known, ";"))
	}
	if mut != "" {
		args = append(args, "-mut", mut)
	}
	if os.Getenv("VERIF_WRITE_HINTS") != "" {
		args = append(args, "-writehints")
	}
	to := j.TimeoutSec
	if to == 0 {
		to = 600
	}
	if deadlineSec > 0 {
		left := deadlineSec - int(time.Since(checkStart).Seconds())
		if left < 20 {
			return jobResult{job: j, err: "not started: the check's overall deadline was reached"}
		}
		if to > left {
			to = left
		}
	}
	// memory cap per engine process (address space), then the engine itself
	memKB := 24 * 1024 * 1024
	sh := fmt.Sprintf("ulimit -v %d; exec timeout -k 5 %d %s \"$@\"", memKB, to, filepath.Join(verifRoot, "bin", "gobmc"))
	cmd := exec.Command("bash", append([]string{"-c", sh, "gobmc"}, args...)...)
	cmd.Dir = modDir
	cmd.Env = goEnv()
	outb, err := cmd.CombinedOutput()
	res := jobResult{job: j, wall: time.Since(t0).Seconds()}
	b, rerr := os.ReadFile(out)
	if rerr != nil {
		msg := "engine produced no report"
		if err != nil {
			msg += ": " + err.Error()
		}
		tail := string(outb)
		if len(tail) > 600 {
			tail = tail[len(tail)-600:]
		}
		res.err = msg + " | " + strings.TrimSpace(tail)
		return res
	}
	if err := json.Unmarshal(b, &res.reports); err != nil {
		res.err = "bad report: " + err.Error()
	}
	return res
}

func main() {
	prop := flag.String("p", "", "property id (C01..C20)")
	tier := flag.String("tier", "quick", "quick | thorough")
	par := flag.Int("j", 0, "parallel jobs (default: cores)")
	replayPath := flag.String("replay", "", "re-run the native replay of a saved replay file and exit")
	noReplay := flag.Bool("noreplay", false, "do not replay (diagnostics only; violations are then reported unreplayed)")
	mut := flag.String("mut", "", "engine overlay (self-test): /repo/x.go=/path/y.go")
	listOnly := flag.Bool("list", false, "list the jobs of the property and exit")
	onlyH := flag.String("only", "", "run only jobs whose harness name contains this")
	deadline := flag.Int("deadline", -1, "overall wall-clock budget in seconds (default: 780 for quick, none for thorough)")
	flag.Parse()
	if t := os.Getenv("VERIF_TIER"); t != "" && !isFlagSet("tier") {
		*tier = t
	}
	seed := 0
	if s := os.Getenv("VERIF_SEED"); s != "" {
		seed, _ = strconv.Atoi(s)
	}
	for _, kv := range strings.Split(*mut, ",") {
		if p := strings.SplitN(kv, "=", 2); len(p) == 2 {
			mutFiles[p[0]] = p[1]
		}
	}
	if *replayPath != "" {
		os.Exit(replaySaved(*replayPath))
	}
	plan, ok := plans[*prop]
	if !ok {
		fmt.Fprintln(os.Stderr, "unknown property", *prop)
		os.Exit(2)
	}
	jobs := plan.Quick
	if *tier == "thorough" {
		jobs = append(append([]Job(nil), plan.Quick...), plan.Thorough...)
	}
	if *onlyH != "" {
		var js []Job
		for _, j := range jobs {
			if strings.Contains(j.H, *onlyH) {
				js = append(js, j)
			}
		}
		jobs = js
	}
	deadlineSec = *deadline
	if deadlineSec < 0 {
		deadlineSec = 0
		if *tier == "quick" {
			deadlineSec = 780
		}
	}
	if *listOnly {
		for _, j := range jobs {
			fmt.Printf("%+v\n", j)
		}
		return
	}
	if *par == 0 {
		*par = 14
	}
	t0 := time.Now()
	scratch, err := os.MkdirTemp("", "verif-"+*prop+"-")
	if err != nil {
		fmt.Fprintln(os.Stderr, err)
		os.Exit(2)
	}
	defer os.RemoveAll(scratch)

	findings := loadFindings()
	knownFor := func(h string) []string {
		var out []string
		for _, f := range findings {
			if f.Property == *prop && f.Status == "open" && (f.Harness == "" || f.Harness == h) {
				out = append(out, f.Site)
			}
		}
		return out
	}

	// run the jobs
	results := make([]jobResult, len(jobs))
	sem := make(chan struct{}, *par)
	var wg sync.WaitGroup
	for i, j := range jobs {
		wg.Add(1)
		go func(i int, j Job) {
			defer wg.Done()
			w := j.Weight
			if w <= 0 {
				w = 1
			}
			for k := 0; k < w; k++ {
				sem <- struct{}{}
			}
			results[i] = runJob(j, knownFor(j.H), scratch, i, *mut)
			for k := 0; k < w; k++ {
				<-sem
			}
		}(i, j)
	}
	wg.Wait()

	ev := newEvidence(*prop, *tier, seed, plan)
	exit := 0
	var lines []string
	knownPrinted := map[string]bool{}
	violPrinted := map[string]bool{}
	for _, r := range results {
		if r.err != "" {
			ev.inconclusive(r.job.H, r.err)
			lines = append(lines, fmt.Sprintf("INCONCLUSIVE harness=%s %s", r.job.H, r.err))
			continue
		}
		for _, rep := range r.reports {
			ev.addReport(r.job, rep)
			if rep.Status != "ok" {
				lines = append(lines, fmt.Sprintf("INCONCLUSIVE harness=%s fix=%s %s", rep.Harness, rep.Fix, rep.Reason))
			}
			for _, s := range rep.Known {
				for _, f := range findings {
					if f.Property == *prop && f.Status == "open" && (f.Harness == "" || f.Harness == rep.Harness) && f.Site != "" && matchKnownSite(f.Site, s) {
						key := f.Site + "|" + f.What
						if !knownPrinted[key] {
							knownPrinted[key] = true
							lines = append(lines, fmt.Sprintf("KNOWN-FINDING: property=%s %s [%s in %s]", *prop, f.What, s.String(), rep.Harness))
						}
						ev.known(f, rep.Harness)
					}
				}
			}
			for vi, v := range rep.Violations {
				label := v.Trace.Violation
				key := rep.Harness + "|" + label
				if violPrinted[key] {
					continue
				}
				violPrinted[key] = true
				var rr replayResult
				if *noReplay {
					rr = replayResult{Reproduced: true, Detail: "replay skipped (-noreplay)"}
				} else {
					rr = replayTrace(rep.Harness, v.Trace, v.Sites, scratch, fmt.Sprintf("%s_%d", rep.Harness, vi))
				}
				ev.violation(rep, v, rr)
				if rr.Reproduced {
					dir := filepath.Join(verifRoot, "replays", *prop)
					os.MkdirAll(dir, 0o755)
					name := rep.Harness
					if rep.Fix != "" {
						name += "_" + sanitize(rep.Fix)
					}
					if vi > 0 {
						name += fmt.Sprintf("_%d", vi)
					}
					path := filepath.Join(dir, name+".json")
					saved := savedReplay{Property: *prop, Harness: rep.Harness, Fix: rep.Fix, K: rep.K, U: rep.U, Sites: v.Sites, Trace: v.Trace, Native: rr.Detail,
						ReplayCmd: fmt.Sprintf("%s/bin/check -replay %s", verifRoot, path)}
					b, _ := json.MarshalIndent(saved, "", " ")
					os.WriteFile(path, b, 0o644)
					lines = append(lines, fmt.Sprintf("VIOLATION property=%s replay=%s", *prop, path))
					lines = append(lines, fmt.Sprintf("  harness=%s sites=%s", rep.Harness, label))
					lines = append(lines, "  native: "+rr.Detail)
					exit = 1
				} else {
					lines = append(lines, fmt.Sprintf("UNREPRODUCED property=%s harness=%s sites=%s :: %s", *prop, rep.Harness, label, rr.Detail))
					// keep the model for diagnosis: an unreproduced model is a defect of the machinery
					dir := filepath.Join(verifRoot, "replays", *prop)
					os.MkdirAll(dir, 0o755)
					path := filepath.Join(dir, fmt.Sprintf("%s_unreproduced%d.json", rep.Harness, vi))
					saved := savedReplay{Property: *prop, Harness: rep.Harness, Fix: rep.Fix, K: rep.K, U: rep.U, Sites: v.Sites, Trace: v.Trace, Native: rr.Detail,
						ReplayCmd: fmt.Sprintf("%s/bin/check -replay %s", verifRoot, path)}
					b, _ := json.MarshalIndent(saved, "", " ")
					os.WriteFile(path, b, 0o644)
				}
			}
			// validate cover witnesses natively
			for ci, tr := range rep.CoverTrace {
				if *noReplay {
					break
				}
				rr := replayTrace(rep.Harness, tr, nil, scratch, fmt.Sprintf("%s_cov%d", rep.Harness, ci))
				ev.coverReplay(rep, tr, rr)
				if !rr.Completed {
					lines = append(lines, fmt.Sprintf("COVER-REPLAY-DIVERGED harness=%s %s :: %s", rep.Harness, tr.Violation, rr.Detail))
					// keep the witness for diagnosis (a diverged witness is a defect of the replay machinery or of the model)
					dir := filepath.Join(verifRoot, "replays", *prop)
					os.MkdirAll(dir, 0o755)
					path := filepath.Join(dir, fmt.Sprintf("%s_cover%d_diverged.json", rep.Harness, ci))
					saved := savedReplay{Property: *prop, Harness: rep.Harness, Fix: rep.Fix, K: rep.K, U: rep.U, Trace: tr, Native: rr.Detail,
						ReplayCmd: fmt.Sprintf("%s/bin/check -replay %s", verifRoot, path)}
					b, _ := json.MarshalIndent(saved, "", " ")
					os.WriteFile(path, b, 0o644)
				}
			}
		}
	}
	ev.finish(time.Since(t0).Seconds(), exit)
	sort.SliceStable(lines, func(i, j int) bool { return false })
	for _, l := range lines {
		fmt.Println(l)
	}
	fmt.Printf("check %s tier=%s: %d jobs, %d engine runs, %d queries (%d unsat, %d sat, %d other), violations=%d, known=%d, inconclusive=%d, %.1fs\n",
		*prop, *tier, len(jobs), ev.runs, ev.nQueries, ev.nUnsat, ev.nSat, ev.nOther, ev.nViol, len(ev.knownSeen), len(ev.Inconclusive), time.Since(t0).Seconds())
	os.Exit(exit)
}

func isFlagSet(name string) bool {
	set := false
	flag.Visit(func(f *flag.Flag) {
		if f.Name == name {
			set = true
		}
	})
	return set
}

func sanitize(s string) string {
	r := strings.NewReplacer("=", "", ",", "_", ".", "", " ", "")
	return r.Replace(s)
}

func matchKnownSite(pat string, s report.Site) bool {
	parts := strings.SplitN(pat, " @", 2)
	if len(parts) != 2 || parts[0] != s.Kind+"/"+s.ID {
		return false
	}
	if strings.Contains(parts[1], " <-> ") {
		pp := strings.Split(parts[1], " <-> ")
		sp := strings.Split(s.Pos, " <-> ")
		if len(sp) != 2 {
			return false
		}
		return (strings.HasSuffix(sp[0], pp[0]) && strings.HasSuffix(sp[1], pp[1])) || (strings.HasSuffix(sp[0], pp[1]) && strings.HasSuffix(sp[1], pp[0]))
	}
	return strings.HasSuffix(s.Pos, parts[1])
}
