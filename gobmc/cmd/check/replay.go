package main

import (
	"encoding/json"
	"fmt"
	"os"
	"os/exec"
	"path/filepath"
	"regexp"
	"sort"
	"strings"
	"time"

	"gobmc/report"
	"gobmc/vinstr"
	"gobmc/vsched"
)

type replayResult struct {
	Reproduced bool   // the violation was observed on the natively compiled code
	Completed  bool   // the native run followed the whole trace
	Detail     string // one-line summary
}

type savedReplay struct {
	Property  string        `json:"property"`
	Harness   string        `json:"harness"`
	Fix       string        `json:"case_split,omitempty"`
	K         int           `json:"K"`
	U         int           `json:"U"`
	Sites     []report.Site `json:"sites"`
	Trace     *vsched.Trace `json:"trace"`
	Native    string        `json:"native_result"`
	ReplayCmd string        `json:"replay_cmd"`
}

// mutFiles: engine/replay overlays given with -mut (original path -> replacement file)
var mutFiles = map[string]string{}

var harnessFileCache map[string]string

// harnessFile finds the file under harness/ that defines func <name>.
func harnessFile(name string) string {
	if harnessFileCache == nil {
		harnessFileCache = map[string]string{}
		files, _ := filepath.Glob(filepath.Join(modDir, "harness", "*.go"))
		re := regexp.MustCompile(`(?m)^func (H_[A-Za-z0-9_]+)\(`)
		for _, f := range files {
			b, _ := os.ReadFile(f)
			for _, m := range re.FindAllStringSubmatch(string(b), -1) {
				harnessFileCache[m[1]] = f
			}
		}
	}
	return harnessFileCache[name]
}

func fileOfStmt(s string) string {
	if s == "" || s == "?" || s == "start" {
		return ""
	}
	if i := strings.Index(s, ":"); i > 0 {
		return s[:i]
	}
	return ""
}

func instrumentable(f string) bool {
	return strings.HasSuffix(f, ".go") && (strings.HasPrefix(f, "/repo/") || strings.HasPrefix(f, filepath.Join(modDir, "harness")+"/"))
}

const replayTestTmpl = `package harness

import (
	"encoding/json"
	"fmt"
	"os"
	"testing"

	"gobmc/vsched"
)

func TestReplay(t *testing.T) {
	res := vsched.Run(os.Getenv("VTRACE"), %s)
	if os.Getenv("VLOG") != "" {
		for _, l := range vsched.Log {
			fmt.Println("  | " + l)
		}
	}
	b, _ := json.Marshal(res)
	fmt.Println("REPLAY-RESULT " + string(b))
}
`

const raceTestTmpl = `package harness

import (
	"testing"
	"time"
)

// free-running native execution under the race detector (no cooperative scheduler: its
// hand-offs would order every pair of accesses)
func TestRaceRun(t *testing.T) {
	for i := 0; i < 200; i++ {
		done := make(chan struct{})
		go func() { defer close(done); defer func() { recover() }(); %s() }()
		select {
		case <-done:
		case <-time.After(300 * time.Millisecond):
		}
	}
	time.Sleep(50 * time.Millisecond)
}
`

func replayTrace(harness string, tr *vsched.Trace, sites []report.Site, scratch, tag string) replayResult {
	dir := filepath.Join(scratch, "replay_"+tag)
	os.MkdirAll(dir, 0o755)
	defer os.RemoveAll(dir)
	isRace := false
	for _, s := range sites {
		if s.Kind == "race" {
			isRace = true
		}
	}
	if isRace {
		return replayRace(harness, sites, dir)
	}
	// files to instrument
	fs := map[string]bool{}
	if hf := harnessFile(harness); hf != "" {
		fs[hf] = true
	}
	for _, st := range tr.Steps {
		if f := fileOfStmt(st.Stmt); instrumentable(f) {
			fs[f] = true
		}
	}
	for _, th := range tr.Threads {
		if f := fileOfStmt(th.Site); instrumentable(f) {
			fs[f] = true
		}
	}
	for _, s := range tr.Final {
		if f := fileOfStmt(s); instrumentable(f) {
			fs[f] = true
		}
	}
	for _, f := range tr.Files {
		if instrumentable(f) && !strings.HasSuffix(f, "_test.go") {
			fs[f] = true
		}
	}
	var files []string
	for f := range fs {
		files = append(files, f)
	}
	sort.Strings(files)
	testFile := filepath.Join(dir, "zz_replay_test.go")
	os.WriteFile(testFile, []byte(fmt.Sprintf(replayTestTmpl, harness)), 0o644)
	overlay, err := vinstr.Instrument(dir, files, map[string]string{filepath.Join(modDir, "harness", "zz_replay_test.go"): testFile}, mutFiles)
	if err != nil {
		return replayResult{Detail: "instrumentation failed: " + err.Error()}
	}
	tracePath := filepath.Join(dir, "trace.json")
	b, _ := json.Marshal(tr)
	os.WriteFile(tracePath, b, 0o644)

	expectStuck, expectAssert, expectPanic, expectSpin := false, []string{}, false, false
	for _, s := range sites {
		switch s.Kind {
		case "spin":
			expectSpin = true
		case "stuck":
			expectStuck = true
		case "assert":
			expectAssert = append(expectAssert, s.ID)
		case "panic":
			expectPanic = true
		}
	}
	var last string
	for attempt := 0; attempt < 3; attempt++ {
		cmd := exec.Command("timeout", "-k", "5", "180", "go", "test", "-vet=off", "-count=1", "-overlay", overlay, "-run", "^TestReplay$", "-v", "./harness")
		cmd.Dir = modDir
		cmd.Env = append(goEnv(), "VTRACE="+tracePath, "VLOG="+os.Getenv("VLOG"))
		out, _ := cmd.CombinedOutput()
		txt := string(out)
		if os.Getenv("VLOG") != "" {
			fmt.Println(txt)
		}
		idx := strings.Index(txt, "REPLAY-RESULT ")
		if idx < 0 {
			tail := txt
			if len(tail) > 500 {
				tail = tail[len(tail)-500:]
			}
			last = "native replay did not run: " + strings.ReplaceAll(strings.TrimSpace(tail), "\n", " | ")
			continue
		}
		line := txt[idx+len("REPLAY-RESULT "):]
		if j := strings.Index(line, "\n"); j >= 0 {
			line = line[:j]
		}
		var res vsched.Result
		if err := json.Unmarshal([]byte(line), &res); err != nil {
			last = "bad replay result: " + err.Error()
			continue
		}
		rr := replayResult{Completed: res.Completed}
		fails := strings.Join(res.Failures, "; ")
		if len(sites) == 0 {
			// cover witness: success = the native run followed the whole trace without failures
			rr.Completed = res.Completed && len(res.Failures) == 0
			rr.Detail = fmt.Sprintf("completed=%v diverged=%q failures=%q", res.Completed, res.Diverged, fails)
			if rr.Completed || attempt == 2 {
				return rr
			}
			last = rr.Detail
			continue
		}
		for _, id := range expectAssert {
			if strings.Contains(fails, "assert "+id) {
				rr.Reproduced = true
			}
		}
		if expectPanic && strings.Contains(fails, "panic") {
			rr.Reproduced = true
		}
		if expectStuck && res.Completed && len(res.Blocked) > 0 {
			// a natively blocked goroutine counts only if it is blocked inside the function
			// in which the model leaves that thread
			for _, th := range res.Blocked {
				want := shortFn(tr.FinalFn[th])
				if want == "" {
					continue
				}
				for _, fn := range res.BlockedIn[th] {
					if shortFn(fn) == want {
						rr.Reproduced = true
					}
				}
			}
		}
		if expectSpin && strings.Contains(fails, "livelock") {
			rr.Reproduced = true
		}
		rr.Detail = fmt.Sprintf("completed=%v diverged=%q failures=%q blocked=%v", res.Completed, res.Diverged, fails, res.Blocked)
		if expectStuck && len(res.Blocked) > 0 {
			for _, th := range res.Blocked {
				rr.Detail += fmt.Sprintf(" [T%d model-in=%s native-in=%v]", th, shortFn(tr.FinalFn[th]), shortFns(res.BlockedIn[th]))
			}
		}
		if rr.Reproduced {
			rr.Detail = "REPRODUCED on the native build: " + rr.Detail
			return rr
		}
		last = rr.Detail
	}
	return replayResult{Detail: last}
}

func replayRace(harness string, sites []report.Site, dir string) replayResult {
	testFile := filepath.Join(dir, "zz_race_test.go")
	os.WriteFile(testFile, []byte(fmt.Sprintf(raceTestTmpl, harness)), 0o644)
	repl := map[string]string{filepath.Join(modDir, "harness", "zz_race_test.go"): testFile}
	for k, v := range mutFiles {
		repl[k] = v
	}
	ov := map[string]interface{}{"Replace": repl}
	b, _ := json.Marshal(ov)
	overlay := filepath.Join(dir, "overlay.json")
	os.WriteFile(overlay, b, 0o644)
	cmd := exec.Command("timeout", "-k", "5", "300", "go", "test", "-race", "-vet=off", "-count=1", "-overlay", overlay, "-run", "^TestRaceRun$", "./harness")
	cmd.Dir = modDir
	env := goEnv()
	for i, e := range env {
		if e == "CGO_ENABLED=0" {
			env[i] = "CGO_ENABLED=1"
		}
	}
	cmd.Env = env
	t0 := time.Now()
	out, _ := cmd.CombinedOutput()
	txt := string(out)
	if !strings.Contains(txt, "DATA RACE") {
		tail := txt
		if len(tail) > 300 {
			tail = tail[len(tail)-300:]
		}
		return replayResult{Detail: fmt.Sprintf("race detector reported nothing in 200 native runs (%.0fs): %s", time.Since(t0).Seconds(), strings.ReplaceAll(strings.TrimSpace(tail), "\n", " | "))}
	}
	// the report must name both positions of some solver-found pair
	for _, s := range sites {
		if s.Kind != "race" {
			continue
		}
		pp := strings.Split(s.Pos, " <-> ")
		if len(pp) == 2 && strings.Contains(txt, pp[0]) && strings.Contains(txt, pp[1]) {
			return replayResult{Reproduced: true, Completed: true, Detail: "REPRODUCED on the native build: go test -race reports a DATA RACE between " + s.Pos}
		}
	}
	return replayResult{Detail: "race detector reported a race, but not between the positions of the model"}
}

// shortFn reduces an SSA or runtime function name to its last identifier (method or function
// name without package, receiver, type arguments and closure suffixes).
func shortFn(s string) string {
	// drop type arguments [...] (possibly nested) wherever they occur
	var sb strings.Builder
	depth := 0
	for _, r := range s {
		switch {
		case r == '[':
			depth++
		case r == ']':
			if depth > 0 {
				depth--
			}
		case depth == 0:
			sb.WriteRune(r)
		}
	}
	s = sb.String()
	s = strings.TrimRight(s, ".0123456789")
	for strings.Contains(s, "$") {
		s = s[:strings.LastIndex(s, "$")]
	}
	s = strings.TrimSuffix(s, ".func")
	for {
		j := strings.LastIndex(s, ".func")
		if j < 0 {
			break
		}
		s = s[:j]
	}
	if i := strings.LastIndexAny(s, ".)/"); i >= 0 {
		s = s[i+1:]
	}
	return s
}

func shortFns(xs []string) []string {
	var out []string
	for _, x := range xs {
		out = append(out, shortFn(x))
	}
	return out
}

// replaySaved re-runs the replay of a saved file (replay_cmd of a VIOLATION line).
func replaySaved(path string) int {
	b, err := os.ReadFile(path)
	if err != nil {
		fmt.Fprintln(os.Stderr, err)
		return 2
	}
	var s savedReplay
	if err := json.Unmarshal(b, &s); err != nil {
		fmt.Fprintln(os.Stderr, err)
		return 2
	}
	scratch, _ := os.MkdirTemp("", "verif-replay-")
	defer os.RemoveAll(scratch)
	rr := replayTrace(s.Harness, s.Trace, s.Sites, scratch, "saved")
	fmt.Println(rr.Detail)
	if rr.Reproduced {
		fmt.Printf("VIOLATION property=%s replay=%s\n", s.Property, path)
		return 1
	}
	return 0
}
