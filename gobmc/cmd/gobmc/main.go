// gobmc runs one harness and prints / writes its report.
package main

import (
	"encoding/json"
	"flag"
	"fmt"
	"os"
	"strings"

	"gobmc/report"
	"gobmc/run"
)

func main() {
	var o run.Opts
	flag.StringVar(&o.Harness, "h", "", "harness function")
	flag.IntVar(&o.U, "U", 3, "loop unwinding bound")
	flag.IntVar(&o.K, "K", 30, "global steps")
	flag.IntVar(&o.MapCap, "mapcap", 3, "slots per map")
	flag.IntVar(&o.AppendCap, "appendcap", 0, "cells reserved for an append to a slice of symbolic length (default 4)")
	flag.IntVar(&o.Preempt, "preempt", -1, "bound on the number of preemptions in a schedule (-1 = unbounded)")
	flag.IntVar(&o.Pruners, "pruners", 1, "parallel pruning sessions")
	flag.BoolVar(&o.Spin, "spin", false, "report unwinding failures of library loops as violations (busy loop)")
	flag.StringVar(&o.HintDir, "hints", "", "directory with shared-cell hint files (seed of the fixpoint)")
	flag.BoolVar(&o.WriteHint, "writehints", false, "write the hint file after the fixpoint")
	flag.StringVar(&o.Solver, "solver", "z3", "solver binary")
	flag.BoolVar(&o.Prune, "prune", false, "solver-assisted pruning of infeasible configurations")
	flag.BoolVar(&o.Race, "race", false, "add the data-race violation class")
	flag.StringVar(&o.Fix, "fix", "", "case split: name=value,... for harness inputs")
	flag.StringVar(&o.Only, "only", "", "restrict the violation disjunction to sites containing this substring")
	flag.BoolVar(&o.Verbose, "v", false, "per-step stats")
	flag.BoolVar(&o.Trace, "trace", false, "trace interpretation")
	flag.StringVar(&o.Dump, "dump", "", "write the SMT session to a file")
	flag.IntVar(&o.QueryMs, "qms", 600000, "per-query timeout (ms)")
	flag.IntVar(&o.MaxModels, "models", 3, "distinct violation models to extract")
	flag.IntVar(&o.Covers, "covers", 0, "cover witnesses to extract")
	flag.BoolVar(&o.Witness, "witness", false, "extract one arbitrary execution inside the bounds (for native validation)")
	flag.IntVar(&o.MaxTerms, "maxterms", 4000000, "unroller cap (terms)")
	flag.StringVar(&o.Dir, "dir", ".", "module directory")
	known := flag.String("known", "", "known sites, ';'-separated: kind/id @pos-suffix")
	mut := flag.String("mut", "", "overlay: /repo/path.go=/path/to/replacement.go[,...]")
	out := flag.String("json", "", "write the report as JSON")
	quiet := flag.Bool("q", false, "no progress output")
	fixlist := flag.String("fixlist", "", "several case splits, ';'-separated, run in one process")
	flag.Parse()
	if *known != "" {
		o.Known = strings.Split(*known, ";")
	}
	if *mut != "" {
		o.Overlay = map[string]string{}
		for _, kv := range strings.Split(*mut, ",") {
			p := strings.SplitN(kv, "=", 2)
			o.Overlay[p[0]] = p[1]
		}
	}
	if !*quiet {
		o.Log = os.Stdout
	}
	if *fixlist != "" {
		reps := run.RunMany(o, strings.Split(*fixlist, ";"))
		if *out != "" {
			b, _ := json.MarshalIndent(reps, "", " ")
			os.WriteFile(*out, b, 0o644)
		}
		for _, rep := range reps {
			fmt.Printf("fix=%s status=%s %s viol=%d bounds=%v\n", rep.Fix, rep.Status, rep.Reason, len(rep.Violations), rep.Bounds)
		}
		return
	}
	if *out != "" {
		o.Progress = func(r *report.Report) {
			b, _ := json.Marshal([]interface{}{r})
			os.WriteFile(*out+".tmp", b, 0o644)
			os.Rename(*out+".tmp", *out)
		}
	}
	rep := run.Run(o)
	if *out != "" {
		b, _ := json.MarshalIndent([]interface{}{rep}, "", " ")
		os.WriteFile(*out, b, 0o644)
	}
	fmt.Printf("status=%s %s terms=%d states=%d transitions=%d enc=%.1fs solve=%.1fs\n", rep.Status, rep.Reason, rep.Terms, rep.States, rep.Firings, rep.EncSec, rep.SolSec)
	for _, v := range rep.Violations {
		fmt.Println("VIOLATED:", v.Trace.Violation)
		if !*quiet {
			for i, st := range v.Trace.Steps {
				fmt.Printf("    step %2d  T%d %-40s %s\n", i, st.Th, short(st.Pos), st.Op)
			}
		}
	}
	for _, s := range rep.Known {
		fmt.Println("KNOWN:", s)
	}
	fmt.Println("bounds:", rep.Bounds, "covers:", rep.Covers)
}

func short(p string) string {
	if i := strings.LastIndex(p, "/"); i >= 0 {
		if j := strings.LastIndex(p[:i], "/"); j >= 0 {
			return p[j+1:]
		}
	}
	return p
}
