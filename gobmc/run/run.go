// Package run executes one harness: load /repo from source, build SSA, unroll symbolically,
// discharge the queries with an incremental solver session and decode models into traces.
package run

import (
	"encoding/json"
	"fmt"
	"go/ast"
	"go/token"
	"io"
	"os"
	"path/filepath"
	"regexp"
	"sort"
	"strconv"
	"strings"
	"time"

	"gobmc/eng"
	"gobmc/report"
	"gobmc/smt"
	"gobmc/vsched"

	"golang.org/x/tools/go/ast/astutil"
	"golang.org/x/tools/go/packages"
	"golang.org/x/tools/go/ssa"
	"golang.org/x/tools/go/ssa/ssautil"
)

type Opts struct {
	Harness   string
	U, K      int
	MapCap    int
	AppendCap int
	Preempt   int // bound on preemptions (-1 = unbounded)
	Pruners   int // number of parallel pruning sessions (default 1)
	Solver    string
	Prune     bool
	Race      bool
	Fix       string   // name=value,...
	Only      string   // restrict the violation disjunction to sites containing this substring
	Known     []string // site strings (kind/id @pos-suffix) that are listed known findings
	Overlay   map[string]string
	Dir       string // module dir (contains ./harness and ./vrt)
	Verbose   bool
	Trace     bool
	Dump      string
	QueryMs   int // per-query solver timeout
	MaxModels int // distinct violation models to extract
	Covers    int // cover witnesses to extract (for native validation)
	// Witness: extract one arbitrary execution of the harness (the model of the sanity query,
	// restricted to executions inside the unwinding/capacity bounds) for native validation
	Witness bool
	MaxTerms  int // cap on the unroller (terms); exceeded => inconclusive
	Spin      bool // report unwinding failures of library loops as violations (class spin)
	SpinU     int
	HintDir   string // directory with <harness>[_fix].json hint files (optional)
	WriteHint bool   // write the hint file after the fixpoint
	Progress  func(*report.Report) // called after every query (partial reports survive a timeout)
	Log       io.Writer
}

type Loaded struct {
	Prog   *ssa.Program
	Pkgs   []*ssa.Package
	Fset   *token.FileSet
	fileOf map[*token.File]*ast.File
}

func Load(dir string, overlay map[string]string) (*Loaded, error) {
	cfg := &packages.Config{Mode: packages.LoadAllSyntax, Dir: dir}
	if len(overlay) > 0 {
		cfg.Overlay = map[string][]byte{}
		for k, v := range overlay {
			b, err := os.ReadFile(v)
			if err != nil {
				return nil, err
			}
			cfg.Overlay[k] = b
		}
	}
	pkgs, err := packages.Load(cfg, "./harness", "./vrt")
	if err != nil {
		return nil, err
	}
	var errs []string
	packages.Visit(pkgs, nil, func(pk *packages.Package) {
		for _, e := range pk.Errors {
			errs = append(errs, e.Error())
		}
	})
	if len(errs) > 0 {
		return nil, fmt.Errorf("load errors: %s", strings.Join(errs, "; "))
	}
	l := &Loaded{fileOf: map[*token.File]*ast.File{}}
	packages.Visit(pkgs, nil, func(pk *packages.Package) {
		l.Fset = pk.Fset
		for _, f := range pk.Syntax {
			l.fileOf[pk.Fset.File(f.Pos())] = f
		}
	})
	prog, spkgs := ssautil.AllPackages(pkgs, ssa.InstantiateGenerics)
	prog.Build()
	l.Prog, l.Pkgs = prog, spkgs
	return l, nil
}

func (l *Loaded) Entry(name string) *ssa.Function {
	for _, sp := range l.Pkgs {
		if sp != nil && sp.Pkg.Name() == "harness" {
			if f := sp.Func(name); f != nil {
				return f
			}
		}
	}
	return nil
}

// stmtOf maps a position to the id of the innermost statement-list statement enclosing it
// (where the replay instrumentation can insert a yield).
func (l *Loaded) stmtOf(pos token.Pos, isStore bool) string {
	if !pos.IsValid() {
		return "?"
	}
	f := l.fileOf[l.Fset.File(pos)]
	if f == nil {
		return "?"
	}
	path, _ := astutil.PathEnclosingInterval(f, pos, pos)
	for i := 0; i+1 < len(path); i++ {
		if st, ok := path[i].(ast.Stmt); ok {
			if cc, isComm := path[i+1].(*ast.CommClause); isComm && cc.Comm == st {
				continue // the communication of a select case is evaluated by the select statement
			}
			switch st.(type) {
			case *ast.CommClause, *ast.CaseClause:
				continue // clauses are not statements of a list
			}
			switch path[i+1].(type) {
			case *ast.BlockStmt, *ast.CaseClause, *ast.CommClause:
				p := l.Fset.Position(st.Pos())
				id := fmt.Sprintf("%s:%d:%d", p.Filename, p.Line, p.Column)
				if as, ok := st.(*ast.AssignStmt); ok && isStore && (as.Tok == token.ASSIGN || as.Tok == token.DEFINE) && len(as.Rhs) == 1 {
					if _, isCall := as.Rhs[0].(*ast.CallExpr); isCall {
						id += "#store"
					}
				}
				return id
			}
		}
	}
	return "?"
}

func siteOf(v *eng.Violation) report.Site { return report.Site{Kind: v.Kind, ID: v.ID, Pos: v.Pos} }

// matchKnown: a known entry "kind/id @suffix" matches a site whose kind/id are equal and whose
// position ends with suffix (positions are stored relative to the repository / verif root).
func matchKnown(known []string, s report.Site) bool {
	for _, k := range known {
		parts := strings.SplitN(k, " @", 2)
		if len(parts) != 2 {
			continue
		}
		if parts[0] != s.Kind+"/"+s.ID {
			continue
		}
		if matchPos(parts[1], s.Pos) {
			return true
		}
	}
	return false
}

func matchPos(pat, pos string) bool {
	// race positions are "a <-> b"
	if strings.Contains(pat, " <-> ") {
		pp := strings.Split(pat, " <-> ")
		sp := strings.Split(pos, " <-> ")
		if len(sp) != 2 || len(pp) != 2 {
			return false
		}
		return (strings.HasSuffix(sp[0], pp[0]) && strings.HasSuffix(sp[1], pp[1])) ||
			(strings.HasSuffix(sp[0], pp[1]) && strings.HasSuffix(sp[1], pp[0]))
	}
	return strings.HasSuffix(pos, pat)
}

var pairRe = regexp.MustCompile(`\(\s*(t\d+|\|[^|]*\||true|false)\s+(true|false|#b[01]+|#x[0-9a-fA-F]+|\(_ bv\d+ \d+\))\s*\)`)

func parseModel(txt string) map[string]string {
	out := map[string]string{}
	for _, m := range pairRe.FindAllStringSubmatch(txt, -1) {
		out[m[1]] = m[2]
	}
	return out
}

func bvValue(s string) (uint64, bool) {
	switch {
	case strings.HasPrefix(s, "#b"):
		v, err := strconv.ParseUint(s[2:], 2, 64)
		return v, err == nil
	case strings.HasPrefix(s, "#x"):
		v, err := strconv.ParseUint(s[2:], 16, 64)
		return v, err == nil
	case strings.HasPrefix(s, "(_ bv"):
		f := strings.Fields(strings.Trim(s, "()"))
		if len(f) >= 2 {
			v, err := strconv.ParseUint(strings.TrimPrefix(f[1], "bv"), 10, 64)
			return v, err == nil
		}
	case s == "true":
		return 1, true
	case s == "false":
		return 0, true
	}
	return 0, false
}

// Run executes one harness job (loading the program first).
func Run(o Opts) *report.Report {
	t0 := time.Now()
	l, err := Load(o.Dir, o.Overlay)
	if err != nil {
		return &report.Report{Harness: o.Harness, K: o.K, U: o.U, Status: "inconclusive", Reason: "load: " + err.Error()}
	}
	rep := RunLoaded(l, o)
	rep.LoadSec = time.Since(t0).Seconds() - rep.EncSec - rep.SolSec
	return rep
}

// RunMany loads once and runs the harness once per case split in fixes.
func RunMany(o Opts, fixes []string) []*report.Report {
	t0 := time.Now()
	l, err := Load(o.Dir, o.Overlay)
	if err != nil {
		return []*report.Report{{Harness: o.Harness, K: o.K, U: o.U, Status: "inconclusive", Reason: "load: " + err.Error()}}
	}
	ld := time.Since(t0).Seconds()
	var out []*report.Report
	for i, f := range fixes {
		o2 := o
		o2.Fix = f
		o2.Witness = o.Witness && i == 0 // one witness per process
		r := RunLoaded(l, o2)
		if i == 0 {
			r.LoadSec = ld
		}
		out = append(out, r)
	}
	return out
}

// RunLoaded executes one harness job on a loaded program.
func RunLoaded(l *Loaded, o Opts) *report.Report {
	rep := &report.Report{Harness: o.Harness, K: o.K, U: o.U, MapCap: o.MapCap, Fix: o.Fix, Status: "ok",
		Bounds: map[string]string{}, Covers: map[string]string{}}
	logf := func(format string, a ...interface{}) {
		if o.Log != nil {
			fmt.Fprintf(o.Log, format, a...)
		}
	}
	inconclusive := func(reason string) *report.Report {
		rep.Status = "inconclusive"
		rep.Reason = reason
		return rep
	}
	if o.QueryMs == 0 {
		o.QueryMs = 600000
	}
	if o.MaxModels == 0 {
		o.MaxModels = 3
	}
	if o.Solver == "" {
		o.Solver = "z3"
	}
	entry := l.Entry(o.Harness)
	if entry == nil {
		return inconclusive("harness not found: " + o.Harness)
	}
	t0 := time.Now()
	m := eng.NewM(l.Prog, o.U, o.K)
	m.Trace = o.Trace
	m.RaceCheck = o.Race
	if o.MapCap > 0 {
		m.MapCap = o.MapCap
	}
	if o.AppendCap > 0 {
		m.AppendCap = o.AppendCap
	}
	m.MaxTerms = o.MaxTerms
	m.MaxPreempt = o.Preempt
	m.Fix = map[string]int64{}
	for _, kv := range strings.Split(o.Fix, ",") {
		if p := strings.SplitN(kv, "=", 2); len(p) == 2 {
			v, _ := strconv.ParseInt(p[1], 10, 64)
			m.Fix[p[0]] = v
		}
	}
	m.Verbose = o.Verbose
	hinted := false
	hintFile := ""
	if o.HintDir != "" {
		hintFile = filepath.Join(o.HintDir, o.Harness+".json")
		if b, err := os.ReadFile(hintFile); err == nil {
			var h struct{ Shared, Try []string }
			if json.Unmarshal(b, &h) == nil && len(h.Shared)+len(h.Try) > 0 {
				m.SetHints(h.Shared, h.Try)
				hinted = true
				m.Hinted = true
			}
		}
	}
	for round := 0; ; round++ {
		if m.Pruner != nil {
			m.Pruner.Close()
			m.Pruner = nil
		}
		m.Reset()
		for _, pr := range m.Pruners {
			pr.Close()
		}
		m.Pruners = nil
		if o.Prune {
			if pr, err := eng.NewPruner("z3"); err == nil {
				m.Pruner = pr
				for i := 1; i < o.Pruners; i++ {
					if p2, err := eng.NewPruner("z3"); err == nil {
						m.Pruners = append(m.Pruners, p2)
					}
				}
			}
		}
		m.Round = round
		m.K = o.K
		if round < 2 && o.K > 10 && !hinted {
			m.K = 10 // cheap discovery rounds for the shared-cell fixpoint
		}
		if err := m.Run(entry); err != nil {
			if m.Pruner != nil {
				m.Pruner.Close()
			}
			return inconclusive(err.Error())
		}
		grew := m.SharedUpdate()
		if single := m.NumThreads() == 1; single != m.Single {
			m.Single = single
			grew = true
		}
		if m.Pruner != nil {
			rep.PruneQ += m.Pruner.Queries
			rep.Pruned += m.Pruner.Pruned
			logf("  pruner: %d queries (%d pruned, %d unknown) %.1fs\n", m.Pruner.Queries, m.Pruner.Pruned, m.Pruner.Unknown, m.Pruner.Sec)
		}
		logf("round %d: terms=%d threads=%d firings=%d maxlive=%d shared=%d viol=%d (%.1fs)\n", round, m.Ctx().NumTerms(), m.NumThreads(), m.Stats.Firings, m.Stats.MaxLive, m.NumShared(), len(m.Viol), time.Since(t0).Seconds())
		rep.Rounds = round + 1
		if !grew && m.K == o.K {
			break
		}
		if round > 12 {
			return inconclusive("shared-cell fixpoint did not converge")
		}
	}
	if m.Pruner != nil {
		m.Pruner.Close()
		m.Pruner = nil
	}
	for _, pr := range m.Pruners {
		pr.Close()
	}
	m.Pruners = nil
	rep.EncSec = time.Since(t0).Seconds()
	if o.WriteHint && hintFile != "" {
		// merge with what is there (case splits of one harness share a file)
		var h struct{ Shared, Try []string }
		if b, err := os.ReadFile(hintFile); err == nil {
			json.Unmarshal(b, &h)
			m.SetHints(h.Shared, h.Try)
		}
		h.Shared, h.Try = m.Hints()
		b, _ := json.MarshalIndent(h, "", " ")
		os.MkdirAll(o.HintDir, 0o755)
		os.WriteFile(hintFile, b, 0o644)
	}
	if o.Verbose {
		m.DumpShared()
	}
	c := m.Ctx()
	rep.Terms, rep.Threads, rep.Firings, rep.MaxLive, rep.Shared = c.NumTerms(), m.NumThreads(), m.Stats.Firings, m.Stats.MaxLive, m.NumShared()
	rep.States = m.NumStates()
	rep.Functions = m.FuncList()
	rep.Stubs = m.StubList()

	// ---- script: definitions + assumptions ----
	t0 = time.Now()
	var logw io.Writer
	var dumpf *os.File
	if o.Dump != "" {
		dumpf, _ = os.Create(o.Dump)
		if dumpf != nil {
			defer dumpf.Close()
			logw = dumpf
		}
	}
	sv, err := NewSolver(o.Solver, logw)
	if err != nil {
		return inconclusive("solver start: " + err.Error())
	}
	defer sv.Close()
	emitted := map[int]bool{}
	viol := m.AggViol()
	if o.Spin {
		// a library loop that exceeds the unwinding bound in a harness whose loops are all
		// bounded by design is a busy loop (the bound U is part of the stated claim)
		for i := range viol {
			if viol[i].Kind == "bound" && viol[i].ID == "unwind" && strings.Contains(viol[i].Pos, "aperturerobotics/util") {
				viol[i].Kind = "spin"
			}
		}
	}
	var roots []*smt.Term
	roots = append(roots, m.Assumes...)
	for i := range viol {
		roots = append(roots, viol[i].G)
	}
	coverKeys := sortedKeys(m.Covers)
	for _, k := range coverKeys {
		roots = append(roots, m.Covers[k])
	}
	roots = append(roots, m.Sched...)
	for _, f := range m.FireLog {
		roots = append(roots, f.G)
	}
	for _, f := range m.FinalLog {
		roots = append(roots, f.G)
	}
	ndKeys := sortedKeys(m.Nondet)
	for _, k := range ndKeys {
		roots = append(roots, m.Nondet[k])
	}
	for _, er := range m.EnvLog {
		roots = append(roots, er.G)
	}
	{
		var sb strings.Builder
		c.Emit(&sb, emitted, roots...)
		for _, a := range m.Assumes {
			fmt.Fprintf(&sb, "(assert %s)\n", smt.Ref(a))
		}
		sv.Send(sb.String())
	}
	define := func(t *smt.Term) string {
		var sb strings.Builder
		c.Emit(&sb, emitted, t)
		if sb.Len() > 0 {
			sv.Send(sb.String())
		}
		return smt.Ref(t)
	}
	addQ := func(name, kind, res string, sec float64) {
		rep.Queries = append(rep.Queries, report.Query{Name: name, Kind: kind, Result: res, Sec: sec})
		logf("  %-8s %-10s %s (%.2fs)\n", res, kind, name, sec)
		if o.Progress != nil {
			o.Progress(rep)
		}
	}

	// model terms to fetch
	var getvals []string
	seenGV := map[string]bool{}
	addGV := func(t *smt.Term) {
		r := smt.Ref(t)
		if t.IsConst() || seenGV[r] {
			return
		}
		seenGV[r] = true
		getvals = append(getvals, r)
	}
	for _, f := range m.FireLog {
		addGV(f.G)
	}
	for _, f := range m.FinalLog {
		addGV(f.G)
	}
	for i := range viol {
		addGV(viol[i].G)
	}
	for _, k := range ndKeys {
		addGV(m.Nondet[k])
	}
	for _, er := range m.EnvLog {
		addGV(er.G)
	}

	decode := func(model string, label string) (*vsched.Trace, []report.Site) {
		vals := parseModel(model)
		isTrue := func(t *smt.Term) bool {
			if t.IsTrue() {
				return true
			}
			return vals[smt.Ref(t)] == "true"
		}
		tr := &vsched.Trace{Harness: o.Harness, Violation: label, Final: map[int]string{}, Inputs: map[string][]int64{}, Files: m.FileList()}
		for i, t := range m.Threads() {
			tr.Threads = append(tr.Threads, vsched.TraceThread{ID: i, Name: t.Name, Parent: t.Parent, Site: t.Site, ChildIdx: t.ChildIdx})
		}
		type fr struct {
			f  eng.FireRec
			st string
		}
		var fired []fr
		for _, f := range m.FireLog {
			if isTrue(f.G) {
				st := l.stmtOf(f.P, strings.HasPrefix(f.Op, "*") && strings.Contains(f.Op, " = "))
				if f.Pos == "start" {
					st = "start"
				}
				if f.Deferred && st != "?" {
					st = strings.TrimSuffix(st, "#store") + "#defer"
				}
				fired = append(fired, fr{f, st})
			}
		}
		sort.SliceStable(fired, func(i, j int) bool { return fired[i].f.Step < fired[j].f.Step })
		seenStep := map[int]bool{}
		selKeys := map[int]string{} // trace step index -> choice variable of its blocking select
		for _, x := range fired {
			if seenStep[x.f.Step] {
				continue
			}
			seenStep[x.f.Step] = true
			tr.Steps = append(tr.Steps, vsched.TraceStep{Th: x.f.Th, Stmt: x.st, Op: x.f.Op, Pos: x.f.Pos, Step: x.f.Step})
			if x.f.SelKey != "" {
				selKeys[len(tr.Steps)-1] = x.f.SelKey
			}
		}
		for _, f := range m.FinalLog {
			if isTrue(f.G) {
				st := l.stmtOf(f.P, strings.HasPrefix(f.Op, "*") && strings.Contains(f.Op, " = "))
				if f.Deferred && st != "?" {
					st = strings.TrimSuffix(st, "#store") + "#defer"
				}
				tr.Final[f.Th] = st
				if tr.FinalFn == nil {
					tr.FinalFn = map[int]string{}
				}
				tr.FinalFn[f.Th] = f.Fn
			}
		}
		var sites []report.Site
		for i := range viol {
			if viol[i].Kind != "bound" && isTrue(viol[i].G) {
				sites = append(sites, siteOf(&viol[i]))
			}
		}
		// harness inputs: nd!<name>!<site> (and [i], .len, .cap); select choices; env cancellations
		for _, k := range ndKeys {
			t := m.Nondet[k]
			v, ok := bvValue(vals[smt.Ref(t)])
			if !ok {
				continue
			}
			sv := int64(v)
			if t.S > 0 && t.S < 64 && v>>(uint(t.S)-1) == 1 && false {
				sv = int64(v) - (1 << uint(t.S))
			}
			tr.Inputs[k] = append(tr.Inputs[k], sv)
		}
		for k, v := range m.Fix {
			tr.Inputs["fix!"+k] = []int64{v}
		}
		// the case chosen by every blocking select that starts a step (the native replay forces it:
		// Go picks at random among ready cases)
		for i, k := range selKeys {
			if v, ok := tr.Inputs[k]; ok && len(v) > 0 && i < len(tr.Steps) {
				tr.Steps[i].Sel = int(v[0]) + 1
			}
		}
		// environment cancellations that happen in this model
		for _, er := range m.EnvLog {
			if !isTrue(er.G) {
				continue
			}
			if ow, ok := m.EnvOwner[er.Ctx]; ok {
				dup := false
				for i := range tr.EnvCancels {
					if tr.EnvCancels[i].Owner == ow[0] && tr.EnvCancels[i].Occ == ow[1] {
						dup = true
						if er.Step < tr.EnvCancels[i].Step {
							tr.EnvCancels[i].Step = er.Step
						}
					}
				}
				if !dup {
					tr.EnvCancels = append(tr.EnvCancels, vsched.EnvCancel{Step: er.Step, Owner: ow[0], Occ: ow[1]})
				}
			}
		}
		return tr, sites
	}

	rep.Status = "partial"
	rep.Reason = "engine run did not finish (timeout): only the queries listed were discharged"
	defer func() {
		if rep.Status == "partial" {
			rep.Status, rep.Reason = "ok", ""
		}
	}()
	// (0) sanity
	res, sec := "", 0.0
	if o.Witness {
		// an arbitrary execution that stays inside the unwinding and capacity bounds: also a
		// witness that the assumptions are consistent; replayed natively by the driver
		var bs []*smt.Term
		for i := range viol {
			if viol[i].Kind == "bound" && !viol[i].G.IsFalse() {
				bs = append(bs, viol[i].G)
			}
		}
		var as []string
		if nb := c.Not(c.Or(bs...)); !nb.IsTrue() {
			as = []string{define(nb)}
		}
		var model string
		res, model, sec = sv.Check(as, o.QueryMs, getvals)
		if res == "sat" {
			addQ("assumptions-consistent, one execution inside the bounds extracted (expect sat)", "sanity", res, sec)
			tr, _ := decode(model, "witness:arbitrary-execution")
			rep.CoverTrace = append(rep.CoverTrace, tr)
		}
	}
	if res != "sat" {
		res, _, sec = sv.Check(nil, o.QueryMs, nil)
		addQ("assumptions-consistent (expect sat)", "sanity", res, sec)
	}
	if res != "sat" {
		if res == "unsat" {
			return inconclusive("vacuous harness: assumptions are unsatisfiable")
		}
		return inconclusive("sanity query: " + res)
	}

	// (1) violations: split sites into known / candidate
	var cand, known []int
	for i := range viol {
		v := &viol[i]
		if v.Kind == "bound" || v.G.IsFalse() {
			continue
		}
		if o.Only != "" {
			hit := false
			for _, pat := range strings.Split(o.Only, "|") {
				if strings.Contains(siteOf(v).String(), pat) {
					hit = true
				}
			}
			if !hit {
				continue
			}
		}
		if matchKnown(o.Known, siteOf(v)) {
			known = append(known, i)
		} else {
			cand = append(cand, i)
		}
	}
	rep.Sites = len(cand) + len(known)
	blocked := map[int]bool{}
	for round := 0; round < o.MaxModels; round++ {
		var ds []*smt.Term
		for _, i := range cand {
			if !blocked[i] {
				ds = append(ds, viol[i].G)
			}
		}
		if len(ds) == 0 {
			break
		}
		all := c.Or(ds...)
		if all.IsFalse() {
			break
		}
		ref := define(all)
		res, model, sec := sv.Check([]string{ref}, o.QueryMs, getvals)
		addQ(fmt.Sprintf("any of %d violation sites", len(ds)), "violations", res, sec)
		if res == "unsat" {
			break
		}
		if res != "sat" {
			rep.Status = "inconclusive"
			rep.Reason = "violation query: " + res
			break
		}
		tr, sites := decode(model, "")
		var lbl []string
		for _, s := range sites {
			lbl = append(lbl, s.String())
		}
		tr.Violation = strings.Join(lbl, "; ")
		rep.Violations = append(rep.Violations, report.Violation{Sites: sites, Trace: tr})
		nb := 0
		for _, i := range cand {
			if !blocked[i] {
				for _, s := range sites {
					if s == siteOf(&viol[i]) {
						blocked[i] = true
						nb++
					}
				}
			}
		}
		if nb == 0 {
			break // cannot make progress (should not happen)
		}
	}
	// known sites: still present?
	for _, i := range known {
		ref := define(viol[i].G)
		res, _, sec := sv.Check([]string{ref}, o.QueryMs, nil)
		addQ("known: "+siteOf(&viol[i]).String(), "known", res, sec)
		switch res {
		case "sat":
			rep.Known = append(rep.Known, siteOf(&viol[i]))
		case "unsat":
			rep.KnownGone = append(rep.KnownGone, siteOf(&viol[i]))
		default:
			rep.Status = "inconclusive"
			rep.Reason = "known-site query: " + res
		}
	}
	// known entries with no site at all in this encoding
	// (2) bounds
	for i := range viol {
		v := &viol[i]
		if v.Kind != "bound" {
			continue
		}
		name := v.ID
		if v.G.IsFalse() {
			if _, ok := rep.Bounds[name]; !ok {
				rep.Bounds[name] = "unsat"
			}
			continue
		}
		ref := define(v.G)
		res, _, sec := sv.Check([]string{ref}, o.QueryMs, nil)
		addQ("bound "+v.ID+" @"+v.Pos, "bound", res, sec)
		if old, ok := rep.Bounds[name]; !ok || old == "unsat" {
			rep.Bounds[name] = res
		}
		if res == "sat" && v.ID == "unwind" {
			rep.Spin = append(rep.Spin, siteOf(v))
		}
	}
	if _, ok := rep.Bounds["steps"]; !ok {
		rep.Bounds["steps"] = "unsat"
	}
	// (3) covers
	nCov := 0
	for _, k := range coverKeys {
		g := m.Covers[k]
		if g.IsFalse() {
			rep.Covers[k] = "unsat"
			continue
		}
		ref := define(g)
		var gv []string
		if nCov < o.Covers {
			gv = getvals
		}
		res, model, sec := sv.Check([]string{ref}, o.QueryMs, gv)
		addQ("cover "+k, "cover", res, sec)
		rep.Covers[k] = res
		if res == "sat" && gv != nil {
			tr, _ := decode(model, "cover:"+k)
			rep.CoverTrace = append(rep.CoverTrace, tr)
			nCov++
		}
	}
	if sv.Errs > 0 {
		rep.Status = "inconclusive"
		rep.Reason = fmt.Sprintf("%d solver errors, first: %s", sv.Errs, sv.FirstErr)
	}
	rep.SolSec = time.Since(t0).Seconds()
	return rep
}

func sortedKeys(mm map[string]*smt.Term) []string {
	var ks []string
	for k := range mm {
		ks = append(ks, k)
	}
	sort.Strings(ks)
	return ks
}
