package run

import (
	"bufio"
	"fmt"
	"io"
	"os/exec"
	"strings"
	"time"
)

// Solver is an interactive SMT-LIB2 session (one process, push/pop).
type Solver struct {
	cmd   *exec.Cmd
	in    io.WriteCloser
	out   *bufio.Reader
	Bin   string
	Errs  int
	// FirstErr: text of the first error (an "(error ...)" line of the solver, or the end of its
	// output: the process died, typically of the address-space cap)
	FirstErr string
	log   io.Writer
	start time.Time
}

func NewSolver(bin string, log io.Writer) (*Solver, error) {
	var cmd *exec.Cmd
	if strings.Contains(bin, "cvc5") {
		cmd = exec.Command(bin, "--incremental", "--lang=smt2", "--produce-models")
	} else {
		cmd = exec.Command(bin, "-in")
	}
	in, err := cmd.StdinPipe()
	if err != nil {
		return nil, err
	}
	out, err := cmd.StdoutPipe()
	if err != nil {
		return nil, err
	}
	cmd.Stderr = cmd.Stdout
	if err := cmd.Start(); err != nil {
		return nil, err
	}
	s := &Solver{cmd: cmd, in: in, out: bufio.NewReaderSize(out, 1<<20), Bin: bin, log: log}
	s.Send("(set-option :produce-models true)\n(set-logic QF_BV)\n")
	return s, nil
}

func (s *Solver) Send(txt string) {
	if s.log != nil {
		io.WriteString(s.log, txt)
	}
	io.WriteString(s.in, txt)
}

func (s *Solver) Close() {
	s.in.Close()
	done := make(chan struct{})
	go func() { s.cmd.Wait(); close(done) }()
	select {
	case <-done:
	case <-time.After(2 * time.Second):
		s.cmd.Process.Kill()
	}
}

func (s *Solver) Kill() { s.cmd.Process.Kill() }

// readLine reads one line; "(error" lines are counted and returned as such.
func (s *Solver) readLine() (string, error) {
	line, err := s.out.ReadString('\n')
	line = strings.TrimSpace(line)
	if strings.HasPrefix(line, "(error") {
		s.Errs++
		if s.FirstErr == "" {
			s.FirstErr = line
		}
	}
	return line, err
}

// Check asserts extra (may be empty) inside a push/pop frame and returns sat|unsat|unknown.
// If the answer is sat and getvals is non-empty, the (get-value) answer text is returned too.
func (s *Solver) Check(extra []string, timeoutMs int, getvals []string) (res string, model string, sec float64) {
	t0 := time.Now()
	var sb strings.Builder
	if strings.Contains(s.Bin, "cvc5") {
		// per-query limit option of cvc5
		fmt.Fprintf(&sb, "(set-option :tlimit-per %d)\n", timeoutMs)
	} else {
		fmt.Fprintf(&sb, "(set-option :timeout %d)\n", timeoutMs)
	}
	sb.WriteString("(push)\n")
	for _, e := range extra {
		fmt.Fprintf(&sb, "(assert %s)\n", e)
	}
	sb.WriteString("(check-sat)\n")
	s.Send(sb.String())
	res = "unknown"
	for {
		line, err := s.readLine()
		if err != nil {
			res = "unknown"
			s.Errs++
			if s.FirstErr == "" {
				s.FirstErr = "solver output ended: " + err.Error() + " (process died: memory cap or killed)"
			}
			return res, "", time.Since(t0).Seconds()
		}
		if line == "sat" || line == "unsat" || line == "unknown" || line == "timeout" {
			res = line
			if res == "timeout" {
				res = "unknown"
			}
			break
		}
	}
	if res == "sat" && len(getvals) > 0 {
		s.Send("(get-value (" + strings.Join(getvals, " ") + "))\n")
		model = s.readSexp()
	}
	s.Send("(pop)\n")
	return res, model, time.Since(t0).Seconds()
}

// readSexp reads one balanced s-expression from the solver output.
func (s *Solver) readSexp() string {
	var sb strings.Builder
	depth := 0
	started := false
	inBar := false
	for {
		b, err := s.out.ReadByte()
		if err != nil {
			s.Errs++
			return sb.String()
		}
		sb.WriteByte(b)
		switch {
		case b == '|':
			inBar = !inBar
		case inBar:
		case b == '(':
			depth++
			started = true
		case b == ')':
			depth--
		}
		if started && depth == 0 {
			txt := sb.String()
			if strings.HasPrefix(strings.TrimSpace(txt), "(error") {
				s.Errs++
			}
			return txt
		}
	}
}
