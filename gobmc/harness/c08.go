package harness

import (
	"context"
	"errors"

	"github.com/aperturerobotics/util/ccontainer"
	"github.com/aperturerobotics/util/refcount"
	"gobmc/vrt"
)

// rcProbe: bookkeeping of the refcount harnesses.
type rcProbe struct {
	produced  int    // values produced by the resolver so far (value n is the n-th)
	relCount  [5]int // how often the release function of value n ran
	resolving int
	told      [3]int  // per reference: the value it was last told (0 = gone / nothing)
	dropped   [3]bool // the holder of reference j has decided to release it
	target    *ccontainer.CContainer[int]
	lastRel   func() // the released() callback handed to the latest resolver call
	firstRel  func() // the released() callback handed to the first resolver call
	// track: check that a value is released only for a reason. gen counts the invalidating
	// events the harness has issued (context change, last reference dropped, the current value's
	// own released callback); a value may be released if such an event was issued after it was
	// produced, while one is in progress (pending), or if the resolver call that produced it
	// was already superseded when it produced it (late result).
	track   bool
	gen     int
	pending bool
	bornGen [5]int
	bornOld [5]bool
}

// invalidating runs op as an invalidating event of the harness.
func (p *rcProbe) invalidating(op func()) {
	vrt.Atomic(func() { p.pending = true })
	op()
	vrt.Atomic(func() { p.pending = false; p.gen++ })
}

// resolver returns value n with a release function that checks the C08 obligations.
func (p *rcProbe) resolver(mode int, errFail error) refcount.RefCountResolver[int] {
	return func(ctx context.Context, released func()) (int, func(), error) {
		var n int
		vrt.Atomic(func() {
			p.resolving++
			vrt.Assert(p.resolving == 1, "resolver-overlap")
			p.produced++
			n = p.produced
			p.lastRel = released
			if n == 1 {
				p.firstRel = released
			}
			if n < 5 {
				p.bornGen[n] = p.gen
				p.bornOld[n] = ctx.Err() != nil || p.pending
			}
		})
		if mode == 2 {
			// slow resolver: returns only after it was superseded / cancelled
			<-ctx.Done()
		}
		vrt.Atomic(func() { p.resolving-- })
		rel := func() {
			cur := 0
			if p.target != nil {
				cur = p.target.GetValue()
			}
			vrt.Atomic(func() {
				if n < 5 {
					p.relCount[n]++
					vrt.Assert(p.relCount[n] == 1, "value-released-twice")
				}
				if p.track && n < 5 {
					vrt.Assert(p.pending || p.bornOld[n] || p.gen > p.bornGen[n], "value-released-without-being-invalidated")
				}
				vrt.Assert(cur != n, "value-released-while-in-target")
				for j := 0; j < 3; j++ {
					vrt.Assert(p.told[j] != n, "value-released-while-a-reference-holds-it")
				}
			})
		}
		if mode == 1 {
			return 0, rel, errFail
		}
		return n, rel, nil
	}
}

func (p *rcProbe) cb(j int) func(resolved bool, val int, err error) {
	return func(resolved bool, val int, err error) {
		vrt.Atomic(func() {
			if resolved && err == nil && !p.dropped[j] {
				p.told[j] = val
			} else {
				p.told[j] = 0
			}
		})
	}
}

// noLeak: every value produced so far has been released exactly once.
func (p *rcProbe) noLeak() {
	vrt.Atomic(func() {
		for n := 1; n <= p.produced && n < 5; n++ {
			vrt.Assert(p.relCount[n] == 1, "value-not-released")
		}
	})
}

// H_C08_Script: one driver, reference 0 added first, then two symbolic operations out of
// {release ref0, add+release ref1, SetContext(B), ClearContext, released(), the FIRST value's
// released() again (stale)}, with keepUnref
// symbolic; finally all references are released and the context is cleared: at quiescence every
// value the resolver produced was released exactly once, never while in the target container
// and never while a reference was still told it holds it.
func H_C08_Script() {
	p := &rcProbe{target: ccontainer.NewCContainer[int](0)}
	keep := vrt.Bool("keep-unref")
	ctxA, cancelA := context.WithCancel(context.Background())
	ctxB, cancelB := context.WithCancel(context.Background())
	rc := refcount.NewRefCount[int](ctxA, keep, p.target, nil, p.resolver(0, nil))
	ref0 := rc.AddRef(p.cb(0))
	p.track = true
	ops := [2]int{vrt.Int("op0", 0, 5), vrt.Int("op1", 0, 5)}
	for i := 0; i < 2; i++ {
		switch ops[i] {
		case 0:
			vrt.Atomic(func() { p.told[0], p.dropped[0] = 0, true }) // the holder gives the value up
			p.invalidating(ref0.Release)
		case 1:
			r1 := rc.AddRef(p.cb(1))
			vrt.Atomic(func() { p.told[1], p.dropped[1] = 0, true })
			last := false
			vrt.Atomic(func() { last = p.dropped[0] })
			if last {
				p.invalidating(r1.Release) // the last reference goes
			} else {
				r1.Release()
			}
		case 2:
			p.invalidating(func() { rc.SetContext(ctxB) })
		case 3:
			p.invalidating(rc.ClearContext)
		case 4:
			var f func()
			vrt.Atomic(func() { f = p.lastRel })
			if f != nil {
				p.invalidating(f)
			}
		default:
			// the released callback of the FIRST value, possibly long after that value was
			// replaced: it must not touch a later value
			var f func()
			own := false
			vrt.Atomic(func() { f, own = p.firstRel, p.produced == 1 })
			if f != nil {
				if own {
					p.invalidating(f)
				} else {
					f()
				}
			}
		}
	}
	vrt.AtQuiescence(func() {
		vrt.Atomic(func() { p.told[0], p.dropped[0] = 0, true })
		p.invalidating(func() {
			ref0.Release()
			rc.ClearContext()
		})
		cancelA()
		cancelB()
		vrt.AtQuiescence(func() { p.noLeak() })
	})
}

// H_C08_Slow: a slow resolver (returns only after it was superseded) whose late result must be
// released immediately instead of stored or leaked; concurrent last Release.
func H_C08_Slow() {
	p := &rcProbe{target: ccontainer.NewCContainer[int](0)}
	ctxA, cancelA := context.WithCancel(context.Background())
	rc := refcount.NewRefCount[int](ctxA, false, p.target, nil, p.resolver(2, nil))
	ref0 := rc.AddRef(p.cb(0))
	vrt.Go("releaser", func() {
		vrt.Atomic(func() { p.told[0], p.dropped[0] = 0, true })
		ref0.Release()
	})
	vrt.Go("second", func() {
		r1 := rc.AddRef(p.cb(1))
		vrt.Atomic(func() { p.told[1], p.dropped[1] = 0, true })
		r1.Release()
	})
	vrt.AtQuiescence(func() {
		rc.ClearContext()
		cancelA()
		vrt.AtQuiescence(func() { p.noLeak() })
	})
}

// H_C08_ReleasedRace: the released() callback of the current value races the last Release.
func H_C08_ReleasedRace() {
	p := &rcProbe{target: ccontainer.NewCContainer[int](0)}
	ctxA, cancelA := context.WithCancel(context.Background())
	rc := refcount.NewRefCount[int](ctxA, vrt.Bool("keep-unref"), p.target, nil, p.resolver(0, nil))
	ref0 := rc.AddRef(p.cb(0))
	vrt.AtQuiescence(func() {
		vrt.Go("releaser", func() {
			vrt.Atomic(func() { p.told[0], p.dropped[0] = 0, true }) // the holder gives the value up
			ref0.Release()
		})
		vrt.Go("invalidator", func() {
			var f func()
			vrt.Atomic(func() { f = p.lastRel })
			if f != nil {
				f()
			}
		})
		vrt.AtQuiescence(func() {
			rc.ClearContext()
			cancelA()
			vrt.AtQuiescence(func() { p.noLeak() })
		})
	})
}

// H_C08_Error: the resolver fails: its release function still runs exactly once when the
// reference goes away, and the error is reported to the reference.
func H_C08_Error() {
	p := &rcProbe{}
	errFail := errors.New("resolve failed")
	gotErr := false
	rc := refcount.NewRefCount[int](context.Background(), vrt.Bool("keep-unref"), nil, nil, p.resolver(1, errFail))
	ref0 := rc.AddRef(func(resolved bool, val int, err error) {
		if resolved && err == errFail {
			vrt.Atomic(func() { gotErr = true })
		}
	})
	vrt.AtQuiescence(func() {
		var g bool
		vrt.Atomic(func() { g = gotErr })
		vrt.Assert(g, "resolver-error-not-delivered")
		ref0.Release()
		vrt.AtQuiescence(func() { p.noLeak() })
	})
}
