package harness

import (
	"context"
	"errors"

	"github.com/aperturerobotics/util/ccontainer"
	"github.com/aperturerobotics/util/refcount"
	"gobmc/vrt"
)

// rcProbe: bookkeeping of the refcount harnesses.
type rcProbe struct {
	produced  int    // values produced by the resolver so far (value n is the n-th)
	relCount  [5]int // how often the release function of value n ran
	resolving int
	told      [3]int  // per reference: the value it was last told (0 = gone / nothing)
	dropped   [3]bool // the holder of reference j has decided to release it
	target    *ccontainer.CContainer[int]
	lastRel   func() // the released() callback handed to the latest resolver call
}

// resolver returns value n with a release function that checks the C08 obligations.
func (p *rcProbe) resolver(mode int, errFail error) refcount.RefCountResolver[int] {
	return func(ctx context.Context, released func()) (int, func(), error) {
		var n int
		vrt.Atomic(func() {
			p.resolving++
			vrt.Assert(p.resolving == 1, "resolver-overlap")
			p.produced++
			n = p.produced
			p.lastRel = released
		})
		if mode == 2 {
			// slow resolver: returns only after it was superseded / cancelled
			<-ctx.Done()
		}
		vrt.Atomic(func() { p.resolving-- })
		rel := func() {
			cur := 0
			if p.target != nil {
				cur = p.target.GetValue()
			}
			vrt.Atomic(func() {
				if n < 5 {
					p.relCount[n]++
					vrt.Assert(p.relCount[n] == 1, "value-released-twice")
				}
				vrt.Assert(cur != n, "value-released-while-in-target")
				for j := 0; j < 3; j++ {
					vrt.Assert(p.told[j] != n, "value-released-while-a-reference-holds-it")
				}
			})
		}
		if mode == 1 {
			return 0, rel, errFail
		}
		return n, rel, nil
	}
}

func (p *rcProbe) cb(j int) func(resolved bool, val int, err error) {
	return func(resolved bool, val int, err error) {
		vrt.Atomic(func() {
			if resolved && err == nil && !p.dropped[j] {
				p.told[j] = val
			} else {
				p.told[j] = 0
			}
		})
	}
}

// noLeak: every value produced so far has been released exactly once.
func (p *rcProbe) noLeak() {
	vrt.Atomic(func() {
		for n := 1; n <= p.produced && n < 5; n++ {
			vrt.Assert(p.relCount[n] == 1, "value-not-released")
		}
	})
}

// H_C08_Script: one driver, reference 0 added first, then two symbolic operations out of
// {release ref0, add+release ref1, SetContext(B), ClearContext, released()}, with keepUnref
// symbolic; finally all references are released and the context is cleared: at quiescence every
// value the resolver produced was released exactly once, never while in the target container
// and never while a reference was still told it holds it.
func H_C08_Script() {
	p := &rcProbe{target: ccontainer.NewCContainer[int](0)}
	keep := vrt.Bool("keep-unref")
	ctxA, cancelA := context.WithCancel(context.Background())
	ctxB, cancelB := context.WithCancel(context.Background())
	rc := refcount.NewRefCount[int](ctxA, keep, p.target, nil, p.resolver(0, nil))
	ref0 := rc.AddRef(p.cb(0))
	ops := [2]int{vrt.Int("op0", 0, 4), vrt.Int("op1", 0, 4)}
	for i := 0; i < 2; i++ {
		switch ops[i] {
		case 0:
			vrt.Atomic(func() { p.told[0], p.dropped[0] = 0, true }) // the holder gives the value up
			ref0.Release()
		case 1:
			r1 := rc.AddRef(p.cb(1))
			vrt.Atomic(func() { p.told[1], p.dropped[1] = 0, true })
			r1.Release()
		case 2:
			rc.SetContext(ctxB)
		case 3:
			rc.ClearContext()
		default:
			var f func()
			vrt.Atomic(func() { f = p.lastRel })
			if f != nil {
				f()
			}
		}
	}
	vrt.AtQuiescence(func() {
		vrt.Atomic(func() { p.told[0], p.dropped[0] = 0, true })
		ref0.Release()
		rc.ClearContext()
		cancelA()
		cancelB()
		vrt.AtQuiescence(func() { p.noLeak() })
	})
}

// H_C08_Slow: a slow resolver (returns only after it was superseded) whose late result must be
// released immediately instead of stored or leaked; concurrent last Release.
func H_C08_Slow() {
	p := &rcProbe{target: ccontainer.NewCContainer[int](0)}
	ctxA, cancelA := context.WithCancel(context.Background())
	rc := refcount.NewRefCount[int](ctxA, false, p.target, nil, p.resolver(2, nil))
	ref0 := rc.AddRef(p.cb(0))
	vrt.Go("releaser", func() {
		vrt.Atomic(func() { p.told[0], p.dropped[0] = 0, true })
		ref0.Release()
	})
	vrt.Go("second", func() {
		r1 := rc.AddRef(p.cb(1))
		vrt.Atomic(func() { p.told[1], p.dropped[1] = 0, true })
		r1.Release()
	})
	vrt.AtQuiescence(func() {
		rc.ClearContext()
		cancelA()
		vrt.AtQuiescence(func() { p.noLeak() })
	})
}

// H_C08_ReleasedRace: the released() callback of the current value races the last Release.
func H_C08_ReleasedRace() {
	p := &rcProbe{target: ccontainer.NewCContainer[int](0)}
	ctxA, cancelA := context.WithCancel(context.Background())
	rc := refcount.NewRefCount[int](ctxA, vrt.Bool("keep-unref"), p.target, nil, p.resolver(0, nil))
	ref0 := rc.AddRef(p.cb(0))
	vrt.AtQuiescence(func() {
		vrt.Go("releaser", func() {
			vrt.Atomic(func() { p.told[0], p.dropped[0] = 0, true }) // the holder gives the value up
			ref0.Release()
		})
		vrt.Go("invalidator", func() {
			var f func()
			vrt.Atomic(func() { f = p.lastRel })
			if f != nil {
				f()
			}
		})
		vrt.AtQuiescence(func() {
			rc.ClearContext()
			cancelA()
			vrt.AtQuiescence(func() { p.noLeak() })
		})
	})
}

// H_C08_Error: the resolver fails: its release function still runs exactly once when the
// reference goes away, and the error is reported to the reference.
func H_C08_Error() {
	p := &rcProbe{}
	errFail := errors.New("resolve failed")
	gotErr := false
	rc := refcount.NewRefCount[int](context.Background(), vrt.Bool("keep-unref"), nil, nil, p.resolver(1, errFail))
	ref0 := rc.AddRef(func(resolved bool, val int, err error) {
		if resolved && err == errFail {
			vrt.Atomic(func() { gotErr = true })
		}
	})
	vrt.AtQuiescence(func() {
		var g bool
		vrt.Atomic(func() { g = gotErr })
		vrt.Assert(g, "resolver-error-not-delivered")
		ref0.Release()
		vrt.AtQuiescence(func() { p.noLeak() })
	})
}
