package harness

import (
	"context"

	"github.com/aperturerobotics/util/routine"
	"gobmc/vrt"
)

// liveCount returns how many registered instances still have a live context, and the index of
// the last such instance.
func (p *rtProbe) liveCount() (n, last int) {
	vrt.Atomic(func() {
		for i := 0; i < p.entered && i < 6; i++ {
			if p.ctxs[i].Err() == nil {
				n++
				last = i
			}
		}
	})
	return
}

// H_C05_TwoDrivers: SetState races SetContext;ClearContext on a StateRoutineContainer. No call
// may panic; superseded instances are cancelled before a successor runs; and once the context
// has been cleared and everything is quiet no instance with a live context remains and nobody
// is left blocked.
func H_C05_TwoDrivers() {
	var p rtProbe
	k := routine.NewStateRoutineContainer[int](nil)
	k.SetStateRoutine(func(ctx context.Context, st int) error {
		p.enter(ctx, st)
		<-ctx.Done()
		p.leave()
		return context.Canceled
	})
	ctxA, cancelA := context.WithCancel(context.Background())
	_ = cancelA
	vrt.Go("set-state", func() { k.SetState(1) })
	vrt.Go("set-ctx", func() {
		k.SetContext(ctxA, false)
		k.ClearContext()
	})
	vrt.AtQuiescence(func() {
		n, _ := p.liveCount()
		vrt.Assert(n == 0, "live-instance-after-clear-context")
	})
}

// H_C05_StateVsRestart: SetState(2) races RestartRoutine while state 1 is running; afterwards
// the only live instance runs with the stored state and derives from the current context.
func H_C05_StateVsRestart() {
	var p rtProbe
	k := routine.NewStateRoutineContainer[int](nil)
	k.SetStateRoutine(func(ctx context.Context, st int) error {
		p.enter(ctx, st)
		<-ctx.Done()
		p.leave()
		return context.Canceled
	})
	ctxA, cancelA := context.WithCancel(context.Background())
	k.SetContext(ctxA, false)
	k.SetState(1)
	vrt.Go("set-state", func() { k.SetState(2) })
	vrt.Go("restart", func() { k.RestartRoutine() })
	vrt.AtQuiescence(func() {
		n, last := p.liveCount()
		vrt.Assert(n <= 1, "two-live-instances")
		if n == 1 {
			var st int
			vrt.Atomic(func() { st = p.states[last] })
			vrt.Assert(st == k.GetState() && st == 2, "survivor-has-stale-state")
		}
		// the survivor derives from the current context: cancelling it ends everything
		cancelA()
		vrt.AtQuiescence(func() {
			n, _ := p.liveCount()
			vrt.Assert(n == 0, "survivor-not-derived-from-current-context")
		})
	})
}

// H_C05_Survivor: single driver, symbolic script of two operations after SetState(1); at
// quiescence at most one live instance exists, it has the latest state and context.
func H_C05_Survivor() {
	var p rtProbe
	k := routine.NewStateRoutineContainer[int](nil)
	k.SetStateRoutine(func(ctx context.Context, st int) error {
		p.enter(ctx, st)
		<-ctx.Done()
		p.leave()
		return context.Canceled
	})
	ctxA, cancelA := context.WithCancel(context.Background())
	ctxB, cancelB := context.WithCancel(context.Background())
	_ = cancelA
	k.SetContext(ctxA, false)
	k.SetState(1)
	useB := false
	hasCtx := true
	for i := 0; i < 2; i++ {
		var op int
		if i == 0 {
			op = vrt.Int("op0", 0, 4)
		} else {
			op = vrt.Int("op1", 0, 4)
		}
		n := p.snapshot()
		switch op {
		case 0:
			if _, _, reset, _ := k.SetState(2); reset {
				p.cancelledBefore(n, "setstate")
			}
		case 1:
			if k.RestartRoutine() {
				p.cancelledBefore(n, "restart")
			}
		case 2:
			if k.SetContext(ctxB, false) {
				p.cancelledBefore(n, "setcontext")
			}
			useB, hasCtx = true, true
		case 3:
			if k.ClearContext() {
				p.cancelledBefore(n, "clearcontext")
			}
			hasCtx = false
		default:
			if _, _, reset, _ := k.SetState(0); reset {
				p.cancelledBefore(n, "setstate-empty")
			}
		}
	}
	vrt.AtQuiescence(func() {
		n, last := p.liveCount()
		st := k.GetState()
		if !hasCtx || st == 0 {
			vrt.Assert(n == 0, "live-instance-without-context-or-state")
		}
		vrt.Assert(n <= 1, "two-live-instances")
		if n == 1 {
			var ist int
			vrt.Atomic(func() { ist = p.states[last] })
			vrt.Assert(ist == st, "survivor-has-stale-state")
		}
		if useB {
			cancelB()
		} else {
			cancelA()
		}
		vrt.AtQuiescence(func() {
			n, _ := p.liveCount()
			vrt.Assert(n == 0, "survivor-not-derived-from-current-context")
			cancelA()
			cancelB()
		})
	})
}
