package harness

import (
	"context"

	"github.com/aperturerobotics/util/routine"
	"gobmc/vrt"
)

// H_C05_TwoDrivers: SetState races SetContext;ClearContext on a StateRoutineContainer. No call
// may panic, and at quiescence (context cleared) no instance with a live context remains.
func H_C05_TwoDrivers() {
	var live int
	fn := func(ctx context.Context, st int) error {
		vrt.Atomic(func() { live++ })
		<-ctx.Done()
		vrt.Atomic(func() { live-- })
		return context.Canceled
	}
	k := routine.NewStateRoutineContainer[int](nil)
	k.SetStateRoutine(fn)
	ctxA, cancelA := context.WithCancel(context.Background())
	_ = cancelA
	vrt.Go("set-state", func() { k.SetState(1) })
	vrt.Go("set-ctx", func() {
		k.SetContext(ctxA, false)
		k.ClearContext()
	})
}
