package harness

import (
	"context"
	"errors"

	"github.com/aperturerobotics/util/promise"
	"gobmc/vrt"
)

// H_C11_Promise: two concurrent SetResult calls (different values, the second with an error
// that may be context.Canceled) and three awaiters of the three flavours, one of which may be
// cancelled at any time. Exactly the first SetResult returns true, and every await that
// completes by result returns that call's value and error; nobody stays blocked.
func H_C11_Promise() {
	p := promise.NewPromise[int]()
	errB := errors.New("b")
	bCanceled := vrt.Bool("b-error-is-canceled")
	var wins [2]bool
	vrt.Go("set-a", func() { wins[0] = p.SetResult(1, nil) })
	vrt.Go("set-b", func() {
		if bCanceled {
			wins[1] = p.SetResult(2, context.Canceled)
		} else {
			wins[1] = p.SetResult(2, errB)
		}
	})
	check := func(v int, err error) {
		// the result of one of the two setters, consistently
		okA := v == 1 && err == nil
		okB := v == 2 && ((bCanceled && err == context.Canceled) || (!bCanceled && err == errB))
		vrt.Assert(okA || okB, "await-result-is-a-set-result")
	}
	var got [2]int
	vrt.Go("await", func() {
		v, err := p.Await(context.Background())
		check(v, err)
		got[0] = v
	})
	vrt.Go("await-errch", func() {
		errCh := make(chan error, 1)
		v, err := p.AwaitWithErrCh(context.Background(), errCh)
		check(v, err)
		got[1] = v
	})
	vrt.Go("await-cancel", func() {
		ctx, cancel := context.WithCancel(context.Background())
		vrt.CancelAnytime(cancel)
		v, err := p.AwaitWithCancelCh(ctx, nil)
		if err == context.Canceled && v == 0 {
			vrt.Cover("await-cancelled")
			return
		}
		check(v, err)
	})
	vrt.AtQuiescence(func() {
		vrt.Assert(wins[0] != wins[1], "exactly-one-setresult-wins")
		want := 1
		if wins[1] {
			want = 2
		}
		vrt.Assert(got[0] == want && got[1] == want, "awaiters-see-the-winning-result")
	})
}

// c11TwoSetters: two concurrent SetResult calls and one awaiter of the given flavour.
func c11TwoSetters(flavour int) {
	p := promise.NewPromise[int]()
	errB := errors.New("b")
	bCanceled := vrt.Bool("b-error-is-canceled")
	var wins [2]bool
	vrt.Go("set-a", func() { wins[0] = p.SetResult(1, nil) })
	vrt.Go("set-b", func() {
		if bCanceled {
			wins[1] = p.SetResult(2, context.Canceled)
		} else {
			wins[1] = p.SetResult(2, errB)
		}
	})
	got, cancelled := 0, false
	vrt.Go("await", func() {
		var v int
		var err error
		switch flavour {
		case 0:
			v, err = p.Await(context.Background())
		case 1:
			errCh := make(chan error, 1)
			v, err = p.AwaitWithErrCh(context.Background(), errCh)
		default:
			ctx, cancel := context.WithCancel(context.Background())
			vrt.CancelAnytime(cancel)
			v, err = p.AwaitWithCancelCh(ctx, nil)
			if err == context.Canceled && v == 0 {
				vrt.Cover("await-cancelled")
				cancelled = true
				return
			}
		}
		okA := v == 1 && err == nil
		okB := v == 2 && ((bCanceled && err == context.Canceled) || (!bCanceled && err == errB))
		vrt.Assert(okA || okB, "await-result-is-a-set-result")
		got = v
	})
	vrt.AtQuiescence(func() {
		vrt.Assert(wins[0] != wins[1], "exactly-one-setresult-wins")
		want := 1
		if wins[1] {
			want = 2
		}
		if !cancelled {
			vrt.Assert(got == want, "awaiter-sees-the-winning-result")
		}
	})
}

// H_C11_Promise_Await / _ErrCh / _CancelCh: two racing SetResult calls and one awaiter.
func H_C11_Promise_Await()    { c11TwoSetters(0) }
func H_C11_Promise_ErrCh()    { c11TwoSetters(1) }
func H_C11_Promise_CancelCh() { c11TwoSetters(2) }

// H_C11_CanceledResult: a PromiseContainer awaiter (each of the three flavours, symbolic)
// returns a result whose error is context.Canceled instead of looping on it.
func H_C11_CanceledResult() {
	pc := promise.NewPromiseContainer[int]()
	pc.SetResult(7, context.Canceled)
	var v int
	var err error
	switch vrt.Int("flavour", 0, 2) {
	case 0:
		v, err = pc.Await(context.Background())
	case 1:
		v, err = pc.AwaitWithErrCh(context.Background(), nil)
	default:
		v, err = pc.AwaitWithCancelCh(context.Background(), nil)
	}
	vrt.Assert(err == context.Canceled && v == 7, "await-returns-canceled-result")
}

// H_C11_Container: an awaiter on a PromiseContainer while the container goes through
// SetPromise(p1); (p1 resolves | SetPromise(nil); SetResult(9, nil)) concurrently: the awaiter
// returns the result of a promise that was current, follows the replacement, and does not stay
// blocked once a current result exists.
func H_C11_Container() {
	pc := promise.NewPromiseContainer[int]()
	p1 := promise.NewPromise[int]()
	replaced := false
	vrt.Go("awaiter", func() {
		v, err := pc.Await(context.Background())
		vrt.Assert(err == nil, "container-await-error")
		vrt.Assert(v == 5 || v == 9, "container-await-value")
		if v == 5 {
			vrt.Cover("container-first-promise")
		} else {
			vrt.Cover("container-followed-replacement")
		}
	})
	vrt.Go("driver", func() {
		pc.SetPromise(p1)
		if vrt.Bool("replace") {
			vrt.Atomic(func() { replaced = true })
			pc.SetPromise(nil)
			pc.SetResult(9, nil)
		}
	})
	vrt.Go("resolver", func() {
		p1.SetResult(5, nil)
	})
	_ = replaced
}

// H_C11_ClearedThenStale: an awaiter is parked on promise p1; the container is cleared
// (SetPromise(nil)); once the awaiter has had every chance to notice (quiescence), the stale
// p1 is resolved by somebody who still holds it and then the container gets its real result.
// The awaiter follows the replacement: it returns the container's result, not stale p1's.
func H_C11_ClearedThenStale() {
	pc := promise.NewPromiseContainer[int]()
	p1 := promise.NewPromise[int]()
	pc.SetPromise(p1)
	vrt.Go("awaiter", func() {
		v, err := pc.Await(context.Background())
		vrt.Assert(err == nil, "container-await-error")
		vrt.Assert(v == 9, "container-awaiter-returned-result-of-replaced-promise")
		vrt.Cover("awaiter-returned")
	})
	vrt.AtQuiescence(func() {
		pc.SetPromise(nil)
		vrt.AtQuiescence(func() {
			p1.SetResult(5, nil)
			pc.SetResult(9, nil)
		})
	})
}
