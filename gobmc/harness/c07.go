package harness

import (
	"context"
	"errors"
	"time"

	"github.com/aperturerobotics/util/keyed"
	cbackoff "github.com/cenkalti/backoff/v4"
	"gobmc/vrt"
)

type constBackoff struct{}

func (constBackoff) NextBackOff() time.Duration { return time.Millisecond }
func (constBackoff) Reset()                     {}

// H_C07_RetrySurvivesSetKey: a routine that failed is retried after its backoff even if
// SetKey(k, false) is called while the retry is pending.
func H_C07_RetrySurvivesSetKey() {
	errFail := errors.New("fail")
	var runs int
	ctor := func(key int) (keyed.Routine, int) {
		return func(ctx context.Context) error {
			var first bool
			vrt.Atomic(func() {
				runs++
				first = runs == 1
			})
			if first {
				return errFail
			}
			<-ctx.Done()
			return context.Canceled
		}, key
	}
	k := keyed.NewKeyed[int, int](ctor, keyed.WithBackoff[int, int](func(int) cbackoff.BackOff { return constBackoff{} }))
	k.SetContext(context.Background(), true)
	k.SetKey(1, true)
	vrt.AtQuiescence(func() {
		// the first run has failed and its retry timer is armed (no Advance yet)
		if vrt.Bool("touch") {
			k.SetKey(1, false)
		}
		vrt.Advance()
		vrt.AtQuiescence(func() {
			var n int
			vrt.Atomic(func() { n = runs })
			vrt.Assert(n >= 2, "failed-routine-retried")
			k.ClearContext()
		})
	})
}

// H_C07_RetryControl: a routine that failed is retried after its backoff even if
// SetKey(k, false) is called while the retry is pending.
func H_C07_RetryControl() {
	errFail := errors.New("fail")
	var runs int
	ctor := func(key int) (keyed.Routine, int) {
		return func(ctx context.Context) error {
			var first bool
			vrt.Atomic(func() {
				runs++
				first = runs == 1
			})
			if first {
				return errFail
			}
			<-ctx.Done()
			return context.Canceled
		}, key
	}
	k := keyed.NewKeyed[int, int](ctor, keyed.WithBackoff[int, int](func(int) cbackoff.BackOff { return constBackoff{} }))
	k.SetContext(context.Background(), true)
	k.SetKey(1, true)
	vrt.AtQuiescence(func() {
		// the first run has failed and its retry timer is armed (no Advance yet)
		vrt.Advance()
		vrt.AtQuiescence(func() {
			var n int
			vrt.Atomic(func() { n = runs })
			vrt.Assert(n >= 2, "failed-routine-retried")
			k.ClearContext()
		})
	})
}

// H_C07_RestartOverlap: RestartRoutine twice inside one exit latency must not let two
// instances of the key's routine run at once.
func H_C07_RestartOverlap() {
	var active int
	ctor := func(key int) (keyed.Routine, int) {
		return func(ctx context.Context) error {
			vrt.Atomic(func() {
				active++
				vrt.Assert(active == 1, "keyed-routine-overlap")
			})
			<-ctx.Done()
			vrt.Atomic(func() { active-- })
			return context.Canceled
		}, key
	}
	k := keyed.NewKeyed[int, int](ctor)
	k.SetContext(context.Background(), true)
	k.SetKey(1, true)
	k.RestartRoutine(1)
	k.RestartRoutine(1)
	k.ClearContext()
}

// H_C07_RemoveDelayRestart: release delay configured; the key is removed (removal pending),
// its routine is restarted inside the delay window, then the delay expires: the key is gone,
// the instance that was running at that moment has had its context cancelled (nothing is left
// running for the removed key) and nothing is started again.
func H_C07_RemoveDelayRestart() {
	var live, runs int
	ctor := func(key int) (keyed.Routine, int) {
		return func(ctx context.Context) error {
			vrt.Atomic(func() { live++; runs++ })
			<-ctx.Done()
			vrt.Atomic(func() { live-- })
			return context.Canceled
		}, key
	}
	k := keyed.NewKeyed[int, int](ctor, keyed.WithReleaseDelay[int, int](time.Second))
	k.SetContext(context.Background(), true)
	k.SetKey(1, true)
	vrt.AtQuiescence(func() {
		k.RemoveKey(1)
		if vrt.Bool("restart") {
			k.RestartRoutine(1)
		}
		vrt.AtQuiescence(func() {
			vrt.Advance()
			vrt.AtQuiescence(func() {
				_, ok := k.GetKey(1)
				vrt.Assert(!ok, "removed-key-present-after-delay")
				var n int
				vrt.Atomic(func() { n = live })
				vrt.Assert(n == 0, "instance-of-removed-key-still-running")
				vrt.Cover("delay-expired")
			})
		})
	})
}
