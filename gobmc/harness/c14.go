package harness

import (
	"context"
	"errors"

	"github.com/aperturerobotics/util/routine"
	"gobmc/vrt"
)

// rtModel is the reference state machine of a RoutineContainer driven by one goroutine that
// waits for quiescence between operations.
type rtModel struct {
	hasCtx   bool
	runs     int  // number of times the routine function was entered
	status   int  // 0 none, 1 running, 2 exited ok, 3 exited with error
	retry    bool // a retry timer is pending
	backoff  bool
	cbCount  int // exits reported to the exit callback
	lastErr  int // 0 nil, 1 errFail (of the last reported exit)
	outcomes [4]int
	// extraCb: instances that were still running when SetRoutine replaced them. They are not
	// stopped the way RestartRoutine/SetContext stop an instance, and the library reports their
	// exit (context.Canceled) to the exit callbacks as "a routine exited"; the property speaks
	// only about exits of current instances, so the machine accepts such a report but does not
	// require it, and the order of that report and the successor's is not fixed.
	extraCb int
}

// start models the effect of starting an instance and letting it run to quiescence.
func (m *rtModel) start() {
	o := 1 // runs beyond the scripted ones run until cancelled
	if m.runs < 4 {
		o = m.outcomes[m.runs]
	}
	m.runs++
	m.retry = false
	switch o {
	case 0: // success
		m.status = 2
		m.cbCount++
		m.lastErr = 0
	case 2: // error
		m.status = 3
		m.cbCount++
		m.lastErr = 1
		if m.backoff {
			m.retry = true
		}
	default:
		m.status = 1
	}
}

// c14Run: one harness body; nops operations, with or without backoff.
func c14Run(nops int, backoff bool) {
	if nops == 1 {
		backoff = vrt.Bool("bo")
	}
	errFail := errors.New("fail")
	var outcomes [4]int
	outcomes[0] = vrt.Int("o0", 0, 2)
	outcomes[1] = vrt.Int("o1", 0, 2)
	outcomes[2] = vrt.Int("o2", 0, 2)
	outcomes[3] = 1
	runs, cbCount, cbErr, active := 0, 0, 0, 0
	fn := func(ctx context.Context) error {
		var o int
		vrt.Atomic(func() {
			o = 1
			if runs < 4 {
				o = outcomes[runs]
			}
			runs++
			active++
			vrt.Assert(active == 1, "routine-overlap")
		})
		var err error
		switch o {
		case 0:
		case 2:
			err = errFail
		default:
			<-ctx.Done()
			err = context.Canceled
		}
		vrt.Atomic(func() { active-- })
		return err
	}
	exitCb := func(err error) {
		vrt.Atomic(func() {
			cbCount++
			if err == nil {
				cbErr = 0
			} else if err == errFail {
				cbErr = 1
			} else {
				cbErr = 2
			}
		})
	}
	var k *routine.RoutineContainer
	if backoff {
		k = routine.NewRoutineContainer(routine.WithExitCb(exitCb), routine.WithBackoff(oneMsBackoff{}))
	} else {
		k = routine.NewRoutineContainer(routine.WithExitCb(exitCb))
	}
	m := &rtModel{backoff: backoff, outcomes: outcomes}
	ctxA, cancelA := context.WithCancel(context.Background())
	ctxB, cancelB := context.WithCancel(context.Background())
	cur := ctxA

	k.SetContext(ctxA, false)
	m.hasCtx = true
	k.SetRoutine(fn)
	m.start()

	ops := [3]int{vrt.Int("op0", 0, 6), vrt.Int("op1", 0, 6), vrt.Int("op2", 0, 6)}
	// a new routine (a different function value with the same scripted behaviour)
	fn2 := func(ctx context.Context) error { return fn(ctx) }

	check := func() {
		var r, c, ce int
		vrt.Atomic(func() { r, c, ce = runs, cbCount, cbErr })
		vrt.Assert(r == m.runs, "run-count-differs-from-machine")
		vrt.Assert(c >= m.cbCount && c <= m.cbCount+m.extraCb, "exit-callback-count-differs-from-machine")
		if c > 0 && m.extraCb == 0 {
			vrt.Assert(ce == m.lastErr, "exit-callback-error-differs-from-machine")
		}
		if m.hasCtx && m.status >= 2 {
			// the current instance has exited: WaitExited reports its status
			err := k.WaitExited(context.Background(), false, nil)
			if m.status == 2 {
				vrt.Assert(err == nil, "waitexited-not-nil-after-success")
			} else {
				vrt.Assert(err == errFail, "waitexited-wrong-error")
			}
		}
		if !m.hasCtx {
			err := k.WaitExited(context.Background(), true, nil)
			vrt.Assert(err == nil, "waitexited-not-running")
		}
	}

	apply := func(op int) {
		switch op {
		case 0: // RestartRoutine
			got := k.RestartRoutine()
			vrt.Assert(got == m.hasCtx, "restart-return")
			if m.hasCtx {
				m.start()
			}
		case 1: // SetContext(same, restart=true): re-runs only an errored routine
			got := k.SetContext(cur, true)
			want := m.hasCtx && m.status == 3
			if !m.hasCtx {
				m.hasCtx = true
				// previously cleared: routines that did not succeed are (re)started
				want = true
				if m.status != 2 {
					m.start()
				}
			} else if m.status == 3 {
				m.start()
			}
			vrt.Assert(got == want, "setcontext-restart-return")
		case 2: // SetContext(same, restart=false): nothing happens if unchanged
			got := k.SetContext(cur, false)
			want := false
			if !m.hasCtx {
				m.hasCtx = true
				want = true
				if m.status == 1 || m.status == 0 {
					m.start()
				}
			}
			vrt.Assert(got == want, "setcontext-same-return")
		case 3: // SetContext(other, restart=false): a running routine moves to the new context
			if cur == ctxA {
				cur = ctxB
			} else {
				cur = ctxA
			}
			k.SetContext(cur, false)
			wasRunning := m.hasCtx && m.status == 1
			m.hasCtx = true
			m.retry = false
			if wasRunning || m.status == 0 || (m.status == 1) {
				m.start()
			}
		case 4: // ClearContext
			k.ClearContext()
			m.hasCtx = false
			m.retry = false
			// a running instance is cancelled; it is no longer current: no callback
			if m.status == 1 {
				m.status = 1
			}
		case 6: // SetRoutine(new routine): replaces the old one (a pending retry of it is dropped)
			_, reset := k.SetRoutine(fn2)
			vrt.Assert(reset == (m.hasCtx && m.status == 1), "setroutine-reset-return")
			if m.hasCtx && m.status == 1 {
				m.extraCb++
			}
			m.retry = false
			m.status = 0
			if m.hasCtx {
				m.start()
			}
		default: // the backoff interval passes
			vrt.Advance()
			if m.retry && m.hasCtx {
				m.start()
			}
			m.retry = false
		}
	}

	vrt.AtQuiescence(func() {
		check()
		apply(ops[0])
		vrt.AtQuiescence(func() {
			check()
			if nops < 2 {
				k.ClearContext()
				cancelA()
				cancelB()
				return
			}
			apply(ops[1])
			vrt.AtQuiescence(func() {
				check()
				if nops >= 3 {
					apply(ops[2])
					vrt.AtQuiescence(func() {
						check()
						k.ClearContext()
						cancelA()
						cancelB()
					})
					return
				}
				k.ClearContext()
				cancelA()
				cancelB()
			})
		})
	})
}

// H_C14_Step: ONE operation from each reachable status of the machine (transition table): the
// first instance succeeds / fails / runs (case split o0), with or without backoff (case split
// bo), then one operation (case split op0); outcomes of later instances are symbolic.
func H_C14_Step() { c14Run(1, false) }

// H_C14_Machine2: two symbolic operations, no backoff.
func H_C14_Machine2() { c14Run(2, false) }

// H_C14_Machine2B: two symbolic operations with a retry backoff.
func H_C14_Machine2B() { c14Run(2, true) }

// H_C14_Machine3B: three symbolic operations with a retry backoff (thorough tier).
func H_C14_Machine3B() { c14Run(3, true) }
