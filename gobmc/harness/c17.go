package harness

import (
	"context"
	"errors"

	"github.com/aperturerobotics/util/ccall"
	"github.com/aperturerobotics/util/routine"
	"gobmc/vrt"
)

// H_C17_ErrNotLost: two functions, one returns an error: the result must not be nil.
func H_C17_ErrNotLost() {
	e1 := errors.New("e1")
	f1 := func(ctx context.Context) error { return e1 }
	f2 := func(ctx context.Context) error { return nil }
	err := ccall.CallConcurrently(context.Background(), f1, f2)
	vrt.Assert(err != nil, "ccall-error-lost")
}

// H_C05_TwoDrivers: SetState races SetContext on a StateRoutineContainer.
func H_C05_TwoDrivers() {
	var live int
	fn := func(ctx context.Context, st int) error {
		vrt.Atomic(func() { live++ })
		<-ctx.Done()
		vrt.Atomic(func() { live-- })
		return context.Canceled
	}
	k := routine.NewStateRoutineContainer[int](nil)
	k.SetStateRoutine(fn)
	ctxA, cancelA := context.WithCancel(context.Background())
	_ = cancelA
	vrt.Go("set-state", func() { k.SetState(1) })
	vrt.Go("set-ctx", func() {
		k.SetContext(ctxA, false)
		k.ClearContext()
	})
}
