package harness

import (
	"context"
	"errors"

	"github.com/aperturerobotics/util/ccall"
	"gobmc/vrt"
)

// H_C17_ErrNotLost: two functions, one returns an error: the result must be that error.
func H_C17_ErrNotLost() {
	e1 := errors.New("e1")
	f1 := func(ctx context.Context) error { return e1 }
	f2 := func(ctx context.Context) error { return nil }
	err := ccall.CallConcurrently(context.Background(), f1, f2)
	vrt.Assert(err == e1, "ccall-error-lost")
}

// ccallOutcome: 0 nil entry, 1 returns nil, 2 returns its own error, 3 waits for its context
// and returns context.Canceled, 4 returns context.Canceled at once of its own accord.
func ccallEntry(kind int, e error, calls, done *int, cx *context.Context) ccall.CallConcurrentlyFunc {
	if kind == 0 {
		return nil
	}
	return func(ctx context.Context) error {
		vrt.Atomic(func() {
			*calls++
			*cx = ctx // the context this function was given
		})
		var err error
		switch kind {
		case 1:
		case 2:
			err = e
		case 4:
			err = context.Canceled
		default:
			<-ctx.Done()
			err = context.Canceled
		}
		vrt.Atomic(func() { *done++ })
		return err
	}
}

func ccallCheck(n int, kinds [3]int, es [3]error, calls, done [3]*int, cxs [3]*context.Context, cancelled bool, err error) {
	anyErr, allNil, anyWait := false, true, false
	for i := 0; i < n; i++ {
		var c, d int
		var cx context.Context
		vrt.Atomic(func() { c, d, cx = *calls[i], *done[i], *cxs[i] })
		if c >= 1 {
			// once CallConcurrently has returned, the context given to the functions is cancelled
			vrt.Assert(cx.Err() != nil, "ccall-function-context-live-after-return")
		}
		if kinds[i] == 0 {
			vrt.Assert(c == 0, "ccall-nil-entry-not-called")
			continue
		}
		vrt.Assert(c <= 1, "ccall-called-at-most-once")
		if kinds[i] == 2 {
			anyErr = true
		}
		if kinds[i] == 3 {
			anyWait = true
		}
		if err == nil {
			// nil only after all of them have returned nil
			vrt.Assert(c == 1, "ccall-nil-only-if-all-called")
			vrt.Assert(d == 1, "ccall-nil-only-if-all-returned")
			vrt.Assert(kinds[i] == 1, "ccall-nil-only-if-all-nil")
		}
		if kinds[i] != 1 {
			allNil = false
		}
	}
	_ = allNil
	if err != nil && err != context.Canceled {
		ok := false
		for i := 0; i < n; i++ {
			var d int
			vrt.Atomic(func() { d = *done[i] })
			if kinds[i] == 2 && err == es[i] && d == 1 {
				ok = true
			}
		}
		vrt.Assert(ok, "ccall-error-was-returned-by-a-function")
	}
	// a function that waits for its context ends only if the caller cancels or another fails
	_ = anyWait
	if anyErr && !cancelled {
		vrt.Assert(err != nil && err != context.Canceled, "ccall-error-not-lost")
	}
	anyOwnCancel := false
	for i := 0; i < n; i++ {
		if kinds[i] == 4 {
			anyOwnCancel = true
		}
	}
	if err == context.Canceled && !anyWait && !anyOwnCancel {
		vrt.Assert(cancelled, "ccall-canceled-only-if-cancelled")
	}
}

// H_C17_Three: three entries with symbolic kinds (nil entry / nil / error / wait-for-context),
// optional cancellation of the caller's context at any time. Every function is invoked at most
// once (exactly once when the call returns nil), nil is returned only after all returned nil,
// an error is never lost, the returned error was really returned by a function, and at
// quiescence nobody is still blocked (the functions' context is cancelled after the return).
func H_C17_Three() {
	var kinds [3]int
	kinds[0] = vrt.Int("k0", 0, 4)
	kinds[1] = vrt.Int("k1", 0, 4)
	kinds[2] = vrt.Int("k2", 0, 4)
	es := [3]error{errors.New("e0"), errors.New("e1"), errors.New("e2")}
	var c0, c1, c2, d0, d1, d2 int
	var x0, x1, x2 context.Context
	calls := [3]*int{&c0, &c1, &c2}
	done := [3]*int{&d0, &d1, &d2}
	cxs := [3]*context.Context{&x0, &x1, &x2}
	ctx, cancel := context.WithCancel(context.Background())
	cancelled := vrt.Bool("cancel")
	if cancelled {
		vrt.CancelAnytime(cancel)
	}
	if kinds[0] == 3 || kinds[1] == 3 || kinds[2] == 3 {
		// a waiting function ends only if another one fails (the caller's cancellation is an
		// environment event that may never come)
		vrt.Assume(kinds[0] == 2 || kinds[1] == 2 || kinds[2] == 2)
	}
	err := ccall.CallConcurrently(ctx,
		ccallEntry(kinds[0], es[0], calls[0], done[0], cxs[0]),
		ccallEntry(kinds[1], es[1], calls[1], done[1], cxs[1]),
		ccallEntry(kinds[2], es[2], calls[2], done[2], cxs[2]))
	ccallCheck(3, kinds, es, calls, done, cxs, cancelled, err)
	if err == nil {
		vrt.Cover("ccall-returns-nil")
	} else if err == context.Canceled {
		vrt.Cover("ccall-returns-canceled")
	} else {
		vrt.Cover("ccall-returns-error")
	}
}

// H_C17_Two: as H_C17_Three with two entries (cheaper; used by the quick tier).
func H_C17_Two() {
	var kinds [3]int
	kinds[0] = vrt.Int("k0", 0, 4)
	kinds[1] = vrt.Int("k1", 0, 4)
	es := [3]error{errors.New("e0"), errors.New("e1"), nil}
	var c0, c1, d0, d1 int
	var x0, x1 context.Context
	calls := [3]*int{&c0, &c1, nil}
	done := [3]*int{&d0, &d1, nil}
	cxs := [3]*context.Context{&x0, &x1, nil}
	ctx, cancel := context.WithCancel(context.Background())
	cancelled := vrt.Bool("cancel")
	if cancelled {
		vrt.CancelAnytime(cancel)
	}
	if kinds[0] == 3 || kinds[1] == 3 {
		vrt.Assume(kinds[0] == 2 || kinds[1] == 2)
	}
	err := ccall.CallConcurrently(ctx,
		ccallEntry(kinds[0], es[0], calls[0], done[0], cxs[0]),
		ccallEntry(kinds[1], es[1], calls[1], done[1], cxs[1]))
	ccallCheck(2, kinds, es, calls, done, cxs, cancelled, err)
	if err == nil {
		vrt.Cover("ccall-returns-nil")
	} else if err == context.Canceled {
		vrt.Cover("ccall-returns-canceled")
	} else {
		vrt.Cover("ccall-returns-error")
	}
}

// H_C17_Small: zero entries and one entry (including a single nil entry).
func H_C17_Small() {
	err := ccall.CallConcurrently(context.Background())
	vrt.Assert(err == nil, "ccall-empty")
	kind := vrt.Int("k", 0, 4)
	e := errors.New("e")
	var c, d int
	var cx context.Context
	ctx, cancel := context.WithCancel(context.Background())
	vrt.Assume(kind != 3) // a single waiting function never returns unless the caller cancels
	_ = cancel
	err = ccall.CallConcurrently(ctx, ccallEntry(kind, e, &c, &d, &cx))
	if c == 1 {
		// also with a single function: its context is cancelled once the call has returned
		vrt.Assert(cx.Err() != nil, "ccall-function-context-live-after-return")
	}
	switch kind {
	case 0:
		vrt.Assert(err == nil && c == 0, "ccall-single-nil-entry")
	case 1:
		vrt.Assert(err == nil && c == 1 && d == 1, "ccall-single")
	case 2:
		vrt.Assert(err == e && c == 1 && d == 1, "ccall-single")
	default:
		vrt.Assert(err == context.Canceled && c == 1 && d == 1, "ccall-single")
	}
}
