package harness

import (
	"github.com/aperturerobotics/util/unique"
	"gobmc/vrt"
)

// H_C20_KeyedMapStep: ONE INDUCTIVE STEP of unique.KeyedMap. Arbitrary valid pre-state over keys
// 0..2 (each absent or holding an arbitrary value), then one call: SetValues / AppendValues with
// a map of n arbitrary entries, or RemoveKeys with n arbitrary keys (kind and n case split;
// equal keys collapse in the map). cmp is equality or a coarser relation (symbolic). Contents
// equal the reference model afterwards and the notification log replayed on the previous
// contents reproduces the new contents.
func H_C20_KeyedMapStep() {
	coarse := vrt.Bool("coarse")
	cmp := func(k int, a, b int) bool {
		if coarse {
			return a/6 == b/6
		}
		return a == b
	}
	var shadow, ref uniqModel
	armed := false
	changed := func(k int, v int, added, removed bool) {
		if !armed {
			return
		}
		vrt.Assert(k >= 0 && k < 3, "uniq-notify-key")
		if removed {
			vrt.Assert(!added, "uniq-notify-flags")
			vrt.Assert(shadow.has[k] && shadow.val[k] == v, "uniq-notify-removed-old-value")
			shadow.has[k], shadow.val[k] = false, 0
		} else if added {
			vrt.Assert(!shadow.has[k], "uniq-notify-added-absent")
			shadow.has[k], shadow.val[k] = true, v
		} else {
			vrt.Assert(shadow.has[k] && shadow.val[k] != v, "uniq-notify-changed-differs")
			shadow.val[k] = v
		}
	}
	pre := [3]int{vrt.Int("s0", 0, 11), vrt.Int("s1", 0, 11), vrt.Int("s2", 0, 11)}
	has := [3]bool{vrt.Bool("h0"), vrt.Bool("h1"), vrt.Bool("h2")}
	l := unique.NewKeyedMap[int, int](cmp, changed, nil)
	for k := 0; k < 3; k++ {
		if has[k] {
			l.AppendValues(map[int]int{k: pre[k]})
			ref.has[k], ref.val[k] = true, pre[k]
		}
	}
	shadow = ref
	armed = true

	keys := [2]int{vrt.Int("k0", 0, 2), vrt.Int("k1", 0, 2)}
	vals := [2]int{vrt.Int("v0", 0, 11), vrt.Int("v1", 0, 11)}
	n := vrt.Int("n", 0, 2)
	op := vrt.Int("op", 0, 2)
	arg := map[int]int{}
	for i := 0; i < n; i++ {
		arg[keys[i]] = vals[i]
	}
	switch op {
	case 0:
		l.SetValues(arg)
		var seen [3]bool
		for k := 0; k < 3; k++ {
			if v, ok := arg[k]; ok {
				seen[k] = true
				if !ref.has[k] || !cmp(k, v, ref.val[k]) {
					ref.has[k], ref.val[k] = true, v
				}
			}
		}
		for k := 0; k < 3; k++ {
			if !seen[k] {
				ref.has[k], ref.val[k] = false, 0
			}
		}
	case 1:
		l.AppendValues(arg)
		for k := 0; k < 3; k++ {
			if v, ok := arg[k]; ok {
				if !ref.has[k] || !cmp(k, v, ref.val[k]) {
					ref.has[k], ref.val[k] = true, v
				}
			}
		}
	default:
		l.RemoveKeys(keys[:n]...)
		for _, k := range keys[:n] {
			ref.has[k], ref.val[k] = false, 0
		}
	}
	gotKeys := l.GetKeys()
	var cnt [3]int
	for _, k := range gotKeys {
		vrt.Assert(k >= 0 && k < 3, "uniq-key-range")
		cnt[k]++
	}
	for k := 0; k < 3; k++ {
		want := 0
		if ref.has[k] {
			want = 1
		}
		vrt.Assert(cnt[k] == want, "uniq-one-value-per-key")
		vrt.Assert(shadow.has[k] == ref.has[k] && shadow.val[k] == ref.val[k], "uniq-notifications-replay")
	}
}
