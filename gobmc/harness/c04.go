package harness

import (
	"context"

	"github.com/aperturerobotics/util/routine"
	"gobmc/vrt"
)

// H_C04_Restart2: container with context+routine; two RestartRoutine calls while the first
// instance may still be inside the function (its exit latency is unbounded).
func H_C04_Restart2() {
	var active int
	fn := func(ctx context.Context) error {
		vrt.Atomic(func() {
			active++
			vrt.Assert(active == 1, "routine-overlap")
		})
		<-ctx.Done()
		vrt.Atomic(func() { active-- })
		return context.Canceled
	}
	k := routine.NewRoutineContainer()
	k.SetContext(context.Background(), false)
	k.SetRoutine(fn)
	k.RestartRoutine()
	k.RestartRoutine()
	k.ClearContext() // every instance is eventually told to stop, so none may stay blocked
}
