package harness

import (
	"context"
	"errors"
	"time"

	"github.com/aperturerobotics/util/routine"
	"gobmc/vrt"
)

// rtProbe is the harness-side bookkeeping shared by the routine harnesses: instances count
// themselves in and out (overlap = two inside at once) and register their context in entry
// order.
type rtProbe struct {
	active  int
	entered int
	ctxs    [6]context.Context
	states  [6]int
}

// enter registers an instance; all earlier registered instances must be over or cancelled.
func (p *rtProbe) enter(ctx context.Context, st int) {
	vrt.Atomic(func() {
		p.active++
		vrt.Assert(p.active == 1, "routine-overlap")
		for i := 0; i < p.entered && i < 6; i++ {
			vrt.Assert(p.ctxs[i].Err() != nil, "superseded-instance-not-cancelled")
		}
		if p.entered < 6 {
			p.ctxs[p.entered] = ctx
			p.states[p.entered] = st
		}
		p.entered++
	})
}

func (p *rtProbe) leave() { vrt.Atomic(func() { p.active-- }) }

// untilCancelled is a routine that runs until its context is cancelled (its exit latency is
// unbounded: it returns whenever the scheduler lets it).
func (p *rtProbe) untilCancelled(ctx context.Context) error {
	p.enter(ctx, 0)
	<-ctx.Done()
	p.leave()
	return context.Canceled
}

// snapshot returns the number of registered instances (call before a superseding operation).
func (p *rtProbe) snapshot() int {
	var n int
	vrt.Atomic(func() { n = p.entered })
	return n
}

// cancelledBefore asserts that every instance registered before snapshot n is cancelled.
func (p *rtProbe) cancelledBefore(n int, id string) {
	vrt.Atomic(func() {
		for i := 0; i < n && i < 6; i++ {
			vrt.Assert(p.ctxs[i].Err() != nil, "superseded-instance-live-after-call-returned")
		}
	})
	_ = id
}

// H_C04_Restart2: container with context+routine; two RestartRoutine calls while the first
// instance may still be inside the function (its exit latency is unbounded).
func H_C04_Restart2() {
	var p rtProbe
	k := routine.NewRoutineContainer()
	k.SetContext(context.Background(), false)
	k.SetRoutine(p.untilCancelled)
	n := p.snapshot()
	if k.RestartRoutine() {
		p.cancelledBefore(n, "restart")
	}
	n = p.snapshot()
	if k.RestartRoutine() {
		p.cancelledBefore(n, "restart")
	}
	k.ClearContext() // every instance is eventually told to stop, so none may stay blocked
}

// H_C04_SetRoutine2: SetRoutine(A); SetRoutine(B) (channel returned must close only after
// every instance of A has returned); RestartRoutine; ClearContext.
func H_C04_SetRoutine2() {
	var p rtProbe
	activeA := 0
	fnA := func(ctx context.Context) error {
		vrt.Atomic(func() { activeA++ })
		err := p.untilCancelled(ctx)
		vrt.Atomic(func() { activeA-- })
		return err
	}
	k := routine.NewRoutineContainer()
	k.SetContext(context.Background(), false)
	k.SetRoutine(fnA)
	k.RestartRoutine()
	n := p.snapshot()
	ch, reset := k.SetRoutine(p.untilCancelled)
	if reset {
		p.cancelledBefore(n, "setroutine")
	}
	if ch != nil {
		vrt.Go("wait-return", func() {
			<-ch
			vrt.Atomic(func() { vrt.Assert(activeA == 0, "wait-return-closed-before-previous-returned") })
		})
	}
	k.RestartRoutine()
	k.ClearContext()
}

// H_C04_SetContext2: supersession through SetContext(B, restart) followed by RestartRoutine.
func H_C04_SetContext2() {
	var p rtProbe
	ctxA, cancelA := context.WithCancel(context.Background())
	ctxB, cancelB := context.WithCancel(context.Background())
	_, _ = cancelA, cancelB
	k := routine.NewRoutineContainer()
	k.SetRoutine(p.untilCancelled)
	k.SetContext(ctxA, false)
	n := p.snapshot()
	if k.SetContext(ctxB, vrt.Bool("restart")) {
		p.cancelledBefore(n, "setcontext")
	}
	k.RestartRoutine()
	k.ClearContext()
}

// H_C04_State2: StateRoutineContainer: two SetState calls and a restart inside one exit latency.
func H_C04_State2() {
	var p rtProbe
	k := routine.NewStateRoutineContainer[int](nil)
	k.SetContext(context.Background(), false)
	k.SetStateRoutine(func(ctx context.Context, st int) error {
		p.enter(ctx, st)
		<-ctx.Done()
		p.leave()
		return context.Canceled
	})
	k.SetState(1)
	n := p.snapshot()
	ch, _, reset, _ := k.SetState(2)
	if reset {
		p.cancelledBefore(n, "setstate")
	}
	if ch != nil {
		vrt.Go("wait-return", func() {
			<-ch
			// the channel returned by SetState closes only after all earlier instances returned
			vrt.Atomic(func() {
				for i := 0; i < n && i < 6; i++ {
					vrt.Assert(p.ctxs[i].Err() != nil, "setstate-channel-early")
				}
			})
		})
	}
	k.RestartRoutine()
	k.ClearContext()
}

// H_C04_ClearSetRoutine: the context is cleared while an instance is still returning, the
// routine is replaced while there is no context, and the context is set again: the new
// instance must still wait for the old one.
func H_C04_ClearSetRoutine() {
	var p rtProbe
	ctxA, cancelA := context.WithCancel(context.Background())
	k := routine.NewRoutineContainer()
	k.SetContext(ctxA, false)
	k.SetRoutine(p.untilCancelled)
	k.ClearContext()
	k.SetRoutine(p.untilCancelled)
	k.SetContext(ctxA, false)
	k.ClearContext()
	cancelA()
}

// H_C04_NilRoutine: SetRoutine(nil) while an instance is still returning, then a new routine.
func H_C04_NilRoutine() {
	var p rtProbe
	k := routine.NewRoutineContainer()
	k.SetContext(context.Background(), false)
	k.SetRoutine(p.untilCancelled)
	k.SetRoutine(nil)
	k.SetRoutine(p.untilCancelled)
	k.ClearContext()
}

// H_C04_StateEmpty: SetState(1); SetState(empty) stops the routine; SetState(2) starts a new
// instance, which must wait for the first one to return.
func H_C04_StateEmpty() {
	var p rtProbe
	k := routine.NewStateRoutineContainer[int](nil)
	k.SetContext(context.Background(), false)
	k.SetStateRoutine(func(ctx context.Context, st int) error {
		p.enter(ctx, st)
		<-ctx.Done()
		p.leave()
		return context.Canceled
	})
	k.SetState(1)
	k.SetState(0)
	k.SetState(2)
	k.ClearContext()
}

type oneMsBackoff struct{}

func (oneMsBackoff) NextBackOff() time.Duration { return time.Millisecond }
func (oneMsBackoff) Reset()                     {}

// H_C04_Retry: with a backoff the first instance fails at once, the retry timer fires at the
// Advance, and a RestartRoutine lands around it: still no two instances at once.
func H_C04_Retry() {
	var p rtProbe
	errFail := errors.New("fail")
	runs := 0
	fn := func(ctx context.Context) error {
		var first bool
		vrt.Atomic(func() { runs++; first = runs == 1 })
		if first {
			p.enter(ctx, 0)
			p.leave()
			return errFail
		}
		return p.untilCancelled(ctx)
	}
	k := routine.NewRoutineContainer(routine.WithBackoff(oneMsBackoff{}))
	k.SetContext(context.Background(), false)
	k.SetRoutine(fn)
	vrt.AtQuiescence(func() {
		vrt.Advance()
		k.RestartRoutine()
		vrt.AtQuiescence(func() {
			var n int
			vrt.Atomic(func() { n = runs })
			vrt.Assert(n >= 2, "failed-routine-run-again")
			k.ClearContext()
		})
	})
}
