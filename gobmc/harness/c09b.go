package harness

import (
	"context"
	"errors"

	"github.com/aperturerobotics/util/ccontainer"
	"github.com/aperturerobotics/util/refcount"
	"gobmc/vrt"
)

// H_C09_Delivered: referenced + context means resolved: once the container is quiet the latest
// result is in the target containers and every reference callback was told it, including a
// reference added later (told at once); released() makes the value be dropped and resolved
// afresh (the second call may fail: the error is delivered the same way); dropping the last
// reference empties everything.
func H_C09_Delivered() {
	target := ccontainer.NewCContainer[int](0)
	targetErr := ccontainer.NewCContainer[*error](nil)
	errFail := errors.New("fail")
	calls, resolving := 0, 0
	var lastRel func()
	fail2 := vrt.Bool("second-call-fails")
	resolver := func(ctx context.Context, released func()) (int, func(), error) {
		var n int
		vrt.Atomic(func() {
			resolving++
			vrt.Assert(resolving == 1, "resolver-overlap")
			calls++
			n = calls
			lastRel = released
		})
		vrt.Atomic(func() { resolving-- })
		if n == 2 && fail2 {
			return 0, nil, errFail
		}
		return 10 + n, nil, nil
	}
	var res0, res1 bool
	var val0, val1 int
	var err0, err1 error
	rc := refcount.NewRefCount[int](context.Background(), false, target, targetErr, resolver)
	r0 := rc.AddRef(func(res bool, v int, e error) {
		vrt.Atomic(func() { res0, val0, err0 = res, v, e })
	})
	vrt.AtQuiescence(func() {
		var c int
		var f func()
		vrt.Atomic(func() { c, f = calls, lastRel })
		vrt.Assert(c == 1, "referenced-with-context-resolved-once")
		vrt.Assert(target.GetValue() == 11, "target-holds-latest-result")
		vrt.Assert(targetErr.GetValue() == nil, "error-target-empty-after-success")
		vrt.Atomic(func() { vrt.Assert(res0 && val0 == 11 && err0 == nil, "reference-told-latest-result") })
		r1 := rc.AddRef(func(res bool, v int, e error) {
			vrt.Atomic(func() { res1, val1, err1 = res, v, e })
		})
		vrt.Atomic(func() { vrt.Assert(res1 && val1 == 11 && err1 == nil, "late-reference-told-latest-result") })
		f() // the resolver reports that value 11 is no longer valid
		vrt.AtQuiescence(func() {
			vrt.Atomic(func() { c = calls })
			vrt.Assert(c == 2, "released-value-resolved-afresh")
			if fail2 {
				vrt.Assert(target.GetValue() == 0, "invalidated-value-left-in-target")
				pe := targetErr.GetValue()
				vrt.Assert(pe != nil && *pe == errFail, "error-delivered-to-error-target")
				vrt.Atomic(func() {
					vrt.Assert(res0 && err0 == errFail && res1 && err1 == errFail, "references-told-error")
				})
			} else {
				vrt.Assert(target.GetValue() == 12, "target-holds-latest-result")
				vrt.Assert(targetErr.GetValue() == nil, "error-target-empty-after-success")
				vrt.Atomic(func() {
					vrt.Assert(res0 && val0 == 12 && err0 == nil && res1 && val1 == 12 && err1 == nil, "reference-told-latest-result")
				})
			}
			r0.Release()
			r1.Release()
			r1.Release() // releasing twice counts once
			vrt.AtQuiescence(func() {
				vrt.Assert(target.GetValue() == 0, "unreferenced-value-left-in-target")
				vrt.Assert(targetErr.GetValue() == nil, "unreferenced-error-left-in-target")
				vrt.Atomic(func() { vrt.Assert(calls == 2, "resolver-called-without-references") })
				vrt.Cover("delivered-end-reached")
			})
		})
	})
}
