package harness

import (
	"context"

	"github.com/aperturerobotics/util/conc"
	"gobmc/vrt"
)

type queueProbe struct {
	active, maxActive int
	runs              [4]int
	order             [4]int
	started           int
}

func (p *queueProbe) job(i int) func() {
	return func() {
		vrt.Atomic(func() {
			p.active++
			if p.active > p.maxActive {
				p.maxActive = p.active
			}
			p.runs[i]++
			if p.started < 4 {
				p.order[p.started] = i
			}
			p.started++
		})
		vrt.Atomic(func() { p.active-- })
	}
}

// H_C18_Limit1: limit 1, one initial job, two producers enqueueing one job each (one producer
// enqueues two): never two jobs at once, every job exactly once, jobs of one Enqueue call run in
// order, Enqueue's counts satisfy queued>0 => running==limit, and WaitIdle returns nil only
// when every job enqueued before it was called has finished.
func H_C18_Limit1() {
	var p queueProbe
	q := conc.NewConcurrentQueue(1, p.job(0))
	inv := func(queued, running int) {
		vrt.Assert(queued >= 0 && running >= 0 && running <= 1, "queue-counts-range")
		if queued > 0 {
			vrt.Assert(running == 1, "queued-but-not-all-workers-running")
		}
	}
	vrt.Go("prod1", func() {
		inv(q.Enqueue(p.job(1), p.job(2)))
		err := q.WaitIdle(context.Background(), nil)
		vrt.Assert(err == nil, "waitidle-error")
		var r1, r2, a int
		vrt.Atomic(func() { r1, r2, a = p.runs[1], p.runs[2], p.active })
		vrt.Assert(r1 == 1 && r2 == 1, "waitidle-returned-before-jobs-finished")
		_ = a
	})
	vrt.Go("prod2", func() {
		inv(q.Enqueue(p.job(3)))
	})
	vrt.AtQuiescence(func() {
		vrt.Assert(p.maxActive <= 1, "queue-limit-exceeded")
		for i := 0; i < 4; i++ {
			vrt.Assert(p.runs[i] == 1, "job-not-run-exactly-once")
		}
		// with limit 1 jobs 1 and 2 (one Enqueue call) run in enqueue order
		pos1, pos2 := -1, -1
		for k := 0; k < 4; k++ {
			if p.order[k] == 1 {
				pos1 = k
			}
			if p.order[k] == 2 {
				pos2 = k
			}
		}
		vrt.Assert(pos1 < pos2, "limit1-order")
		inv(q.Enqueue())
	})
}

// H_C18_Limit1Small: limit 1; the main thread enqueues job 0, then two producers enqueue one
// job each, one of them waits for idle (quick tier).
func H_C18_Limit1Small() {
	var p queueProbe
	q := conc.NewConcurrentQueue(1)
	inv := func(queued, running int) {
		vrt.Assert(queued >= 0 && running >= 0 && running <= 1, "queue-counts-range")
		if queued > 0 {
			vrt.Assert(running == 1, "queued-but-not-all-workers-running")
		}
	}
	inv(q.Enqueue(p.job(0)))
	vrt.Go("prod1", func() {
		inv(q.Enqueue(p.job(1)))
		err := q.WaitIdle(context.Background(), nil)
		vrt.Assert(err == nil, "waitidle-error")
		var r0, r1 int
		vrt.Atomic(func() { r0, r1 = p.runs[0], p.runs[1] })
		vrt.Assert(r0 == 1 && r1 == 1, "waitidle-returned-before-jobs-finished")
	})
	vrt.Go("prod2", func() {
		inv(q.Enqueue(p.job(2)))
	})
	vrt.AtQuiescence(func() {
		vrt.Assert(p.maxActive <= 1, "queue-limit-exceeded")
		for i := 0; i < 3; i++ {
			vrt.Assert(p.runs[i] == 1, "job-not-run-exactly-once")
		}
		vrt.Assert(p.order[0] == 0, "limit1-order")
		inv(q.Enqueue())
	})
}

// H_C18_Limit2: limit 2 with three jobs from two producers and a WatchState observer.
func H_C18_Limit2() {
	var p queueProbe
	q := conc.NewConcurrentQueue(2)
	vrt.Go("prod1", func() { q.Enqueue(p.job(0), p.job(1)) })
	vrt.Go("prod2", func() { q.Enqueue(p.job(2)) })
	vrt.Go("watch", func() {
		n := 0
		err := q.WatchState(context.Background(), nil, func(queued, running int) (bool, error) {
			vrt.Assert(running <= 2 && (queued == 0 || running == 2), "watchstate-counts")
			n++
			return n < 2, nil
		})
		vrt.Assert(err == nil, "watchstate-error")
	})
	vrt.AtQuiescence(func() {
		vrt.Assert(p.maxActive <= 2, "queue-limit-exceeded")
		for i := 0; i < 3; i++ {
			vrt.Assert(p.runs[i] == 1, "job-not-run-exactly-once")
		}
		// wake the watcher if it is still waiting for a second observation
		q.Enqueue(p.job(3))
	})
}

// H_C18_Unlimited: limit 0 (unlimited): every job runs exactly once and WaitIdle works.
func H_C18_Unlimited() {
	var p queueProbe
	q := conc.NewConcurrentQueue(0)
	vrt.Go("prod", func() {
		queued, _ := q.Enqueue(p.job(0), p.job(1))
		vrt.Assert(queued == 0, "unlimited-never-queues")
		err := q.WaitIdle(context.Background(), nil)
		vrt.Assert(err == nil, "waitidle-error")
		var r0, r1 int
		vrt.Atomic(func() { r0, r1 = p.runs[0], p.runs[1] })
		vrt.Assert(r0 == 1 && r1 == 1, "waitidle-returned-before-jobs-finished")
	})
}

// H_C18_Limit2Small: limit 2; one producer enqueues three jobs in one call, waits for idle;
// never more than two jobs at once, each exactly once, counts consistent.
func H_C18_Limit2Small() {
	var p queueProbe
	q := conc.NewConcurrentQueue(2)
	queued, running := q.Enqueue(p.job(0), p.job(1), p.job(2))
	vrt.Assert(running <= 2 && (queued == 0 || running == 2), "queue-counts-range")
	vrt.Assert(queued+running >= 0 && queued <= 1, "queue-counts-range")
	err := q.WaitIdle(context.Background(), nil)
	vrt.Assert(err == nil, "waitidle-error")
	var r0, r1, r2, mx int
	vrt.Atomic(func() { r0, r1, r2, mx = p.runs[0], p.runs[1], p.runs[2], p.maxActive })
	vrt.Assert(r0 == 1 && r1 == 1 && r2 == 1, "waitidle-returned-before-jobs-finished")
	vrt.Assert(mx <= 2, "queue-limit-exceeded")
	queued, running = q.Enqueue()
	vrt.Assert(queued == 0 && running == 0, "idle-counts-not-zero")
}

// H_C18_InitialWatch: limit 1 with two initial elements (started by the constructor) and a
// WatchState observer that watches until the queue is idle.
func H_C18_InitialWatch() {
	var p queueProbe
	q := conc.NewConcurrentQueue(1, p.job(0), p.job(1))
	err := q.WatchState(context.Background(), nil, func(queued, running int) (bool, error) {
		vrt.Assert(running >= 0 && running <= 1 && queued >= 0 && (queued == 0 || running == 1), "watchstate-counts")
		return queued+running != 0, nil
	})
	vrt.Assert(err == nil, "watchstate-error")
	var r0, r1, mx, o0 int
	vrt.Atomic(func() { r0, r1, mx, o0 = p.runs[0], p.runs[1], p.maxActive, p.order[0] })
	vrt.Assert(r0 == 1 && r1 == 1, "idle-reported-before-jobs-finished")
	vrt.Assert(mx <= 1, "queue-limit-exceeded")
	vrt.Assert(o0 == 0, "limit1-order")
}

// H_C18_WaitIdleErrCh: WaitIdle with an error channel on which a nil error is already pending
// (the "routine finished without error" idiom): a nil error is not a reason to return, so
// WaitIdle still returns nil only once the enqueued jobs have finished.
func H_C18_WaitIdleErrCh() {
	var p queueProbe
	q := conc.NewConcurrentQueue(1)
	vrt.Go("prod", func() {
		errCh := make(chan error, 1)
		errCh <- nil
		q.Enqueue(p.job(0), p.job(1))
		err := q.WaitIdle(context.Background(), errCh)
		vrt.Assert(err == nil, "waitidle-error")
		var r0, r1 int
		vrt.Atomic(func() { r0, r1 = p.runs[0], p.runs[1] })
		vrt.Assert(r0 == 1 && r1 == 1, "waitidle-returned-before-jobs-finished")
	})
}
