package harness

import (
	"context"
	"errors"

	"github.com/aperturerobotics/util/csync"
	"github.com/aperturerobotics/util/keyed"
	"github.com/aperturerobotics/util/promise"
	"github.com/aperturerobotics/util/refcount"
	"github.com/aperturerobotics/util/routine"
	cbackoff "github.com/cenkalti/backoff/v4"
	"gobmc/vrt"
)

// H_C02_WriterPreference2: as H_C02_WriterPreference plus R3, a reader that holds and releases
// (an unrelated wake-up while R1 still holds and W still waits): R2, which saw a registered
// writer, may be granted only after the writer gave up (ghost flag raised before the cancel)
// or acquired.
func H_C02_WriterPreference2() {
	var m csync.RWMutex
	var cancelCalled, wAcquired bool
	vrt.Go("r1", func() {
		_, err := m.Lock(context.Background(), false)
		if err != nil {
			return
		}
		vrt.Park()
	})
	vrt.Go("r3", func() {
		rel, ok := m.TryLock(false)
		if ok {
			rel()
		}
	})
	vrt.Go("w", func() {
		ctx, cancel := context.WithCancel(context.Background())
		vrt.Go("canceller", func() {
			vrt.Atomic(func() { cancelCalled = true })
			cancel()
		})
		rel, err := m.Lock(ctx, true)
		if err == nil {
			vrt.Atomic(func() { wAcquired = true })
			rel()
		}
	})
	vrt.Go("r2", func() {
		r, ok := m.TryLock(false)
		if ok {
			r()
			return
		}
		rel, err := m.Lock(context.Background(), false)
		if err == nil {
			var c bool
			vrt.Atomic(func() { c = cancelCalled || wAcquired })
			vrt.Assert(c, "reader-overtook-waiting-writer")
			rel()
		}
	})
}

// H_C05_RetryReplaced: with a retry backoff the routine A fails and waits for its retry; it is
// then replaced by routine B. When the backoff interval passes, A must not be revived: exactly
// one live instance (B) exists and A ran once.
func H_C05_RetryReplaced() {
	var p rtProbe
	errFail := errors.New("fail")
	runsA := 0
	fnA := func(ctx context.Context) error {
		vrt.Atomic(func() { runsA++ })
		p.enter(ctx, 1)
		p.leave()
		return errFail
	}
	fnB := func(ctx context.Context) error {
		p.enter(ctx, 2)
		<-ctx.Done()
		p.leave()
		return context.Canceled
	}
	k := routine.NewRoutineContainer(routine.WithBackoff(oneMsBackoff{}))
	k.SetContext(context.Background(), false)
	k.SetRoutine(fnA)
	vrt.AtQuiescence(func() {
		k.SetRoutine(fnB)
		vrt.Advance()
		vrt.AtQuiescence(func() {
			var n int
			vrt.Atomic(func() { n = runsA })
			vrt.Assert(n == 1, "superseded-routine-revived-by-stale-retry")
			live, last := p.liveCount()
			vrt.Assert(live == 1, "live-instances-after-replacement")
			if live == 1 {
				var st int
				vrt.Atomic(func() { st = p.states[last] })
				vrt.Assert(st == 2, "survivor-is-not-the-current-routine")
			}
			k.ClearContext()
		})
	})
}

// H_C07_ResetDuringRetry: a key's routine fails and waits for its retry; ResetRoutine replaces
// it inside the backoff window; when the interval passes the superseded routine must not be
// started again next to the new one, and RemoveKey cancels everything of the key.
func H_C07_ResetDuringRetry() {
	errFail := errors.New("fail")
	gen, active, runsGen1 := 0, 0, 0
	ctor := func(key int) (keyed.Routine, int) {
		var g int
		vrt.Atomic(func() { gen++; g = gen })
		return func(ctx context.Context) error {
			vrt.Atomic(func() {
				active++
				vrt.Assert(active == 1, "keyed-routine-overlap")
				if g == 1 {
					runsGen1++
				}
			})
			var err error
			if g == 1 {
				err = errFail
			} else {
				<-ctx.Done()
				err = context.Canceled
			}
			vrt.Atomic(func() { active-- })
			return err
		}, key
	}
	k := keyed.NewKeyed[int, int](ctor, keyed.WithBackoff[int, int](func(int) cbackoff.BackOff { return constBackoff{} }))
	k.SetContext(context.Background(), true)
	k.SetKey(1, true)
	vrt.AtQuiescence(func() {
		k.ResetRoutine(1)
		vrt.Advance()
		vrt.AtQuiescence(func() {
			var n int
			vrt.Atomic(func() { n = runsGen1 })
			vrt.Assert(n == 1, "superseded-keyed-routine-revived-by-stale-retry")
			k.RemoveKey(1)
			vrt.AtQuiescence(func() {
				var a int
				vrt.Atomic(func() { a = active })
				vrt.Assert(a == 0, "instance-running-after-removekey")
			})
		})
	})
}

// H_C09_StopStart: a slow resolver call, the context is cleared while a reference is held
// (stop), and set again before the call has returned (start): the new call must wait.
func H_C09_StopStart() {
	var resolving int
	resolver := func(ctx context.Context, released func()) (int, func(), error) {
		vrt.Atomic(func() {
			resolving++
			vrt.Assert(resolving == 1, "resolver-overlap")
		})
		<-ctx.Done()
		vrt.Atomic(func() { resolving-- })
		return 0, nil, context.Canceled
	}
	ctxA, cancelA := context.WithCancel(context.Background())
	ctxB, cancelB := context.WithCancel(context.Background())
	_, _ = cancelA, cancelB
	rc := refcount.NewRefCount[int](ctxA, false, nil, nil, resolver)
	ref := rc.AddRef(nil)
	rc.ClearContext()
	rc.SetContext(ctxB)
	if vrt.Bool("drop-ref") {
		ref.Release()
		ref = rc.AddRef(nil)
	}
	rc.ClearContext()
	ref.Release()
}

// H_C11_ReplaceBack: the contained promise goes A -> B -> A while an awaiter waits, then A
// resolves: the awaiter must deliver A's result (it must not return early with Canceled, and
// must not stay blocked).
func H_C11_ReplaceBack() {
	pc := promise.NewPromiseContainer[int]()
	pa := promise.NewPromise[int]()
	pb := promise.NewPromise[int]()
	pc.SetPromise(pa)
	vrt.Go("awaiter", func() {
		var v int
		var err error
		switch vrt.Int("flavour", 0, 2) {
		case 0:
			v, err = pc.Await(context.Background())
		case 1:
			v, err = pc.AwaitWithErrCh(context.Background(), nil)
		default:
			v, err = pc.AwaitWithCancelCh(context.Background(), nil)
		}
		vrt.Assert(err == nil && v == 7, "container-await-after-replace-back")
	})
	vrt.Go("driver", func() {
		pc.SetPromise(pb)
		pc.SetPromise(pa)
		pa.SetResult(7, nil)
	})
}
