package harness

import (
	"io"

	"github.com/aperturerobotics/util/ioproxy"
	"gobmc/vrt"
)

// pxStream is a scripted stream: Read hands out the script in chunks of 1 or 2 bytes, then EOF;
// after Close it fails. Write logs the bytes (and may be short when shortWrites is set).
type pxStream struct {
	script  [3]byte
	n       int // script length
	rpos    int
	closed  int
	log     [4]byte
	wn      int
	chunk2  bool // hand out two bytes at once when possible
	reads   int
	afterCl int // reads or writes that reached the stream after Close
	// blocking: when the script is exhausted Read blocks until the stream is closed (like a
	// connection whose peer stays silent) instead of reporting EOF
	blocking bool
	closedCh chan struct{}
}

func (s *pxStream) Read(p []byte) (int, error) {
	n, eof, bad := 0, false, false
	var b0, b1 byte
	vrt.Atomic(func() {
		s.reads++
		if s.closed > 0 {
			bad = true
			return
		}
		if s.rpos >= s.n {
			eof = true
			return
		}
		b0 = s.script[s.rpos]
		n = 1
		if s.chunk2 && s.rpos+1 < s.n {
			b1 = s.script[s.rpos+1]
			n = 2
		}
		s.rpos += n
	})
	if bad {
		return 0, io.ErrClosedPipe
	}
	if eof {
		if s.blocking {
			<-s.closedCh
			return 0, io.ErrClosedPipe
		}
		return 0, io.EOF
	}
	p[0] = b0
	if n == 2 {
		p[1] = b1
	}
	return n, nil
}

func (s *pxStream) Write(p []byte) (int, error) {
	bad := false
	vrt.Atomic(func() {
		if s.closed > 0 {
			bad = true
			return
		}
		for i := 0; i < len(p) && i < 2; i++ {
			if s.wn < 4 {
				s.log[s.wn] = p[i]
			}
			s.wn++
		}
	})
	if bad {
		return 0, io.ErrClosedPipe
	}
	return len(p), nil
}

func (s *pxStream) Close() error {
	first := false
	vrt.Atomic(func() {
		s.closed++
		first = s.closed == 1
	})
	if first && s.closedCh != nil {
		close(s.closedCh)
	}
	return nil
}

// H_C20_Proxy: two scripted streams (0..2 bytes each, handed out in chunks of one or two bytes),
// proxied in both directions; stream b either reports EOF after its script or stays silent
// (its Read blocks until it is closed: the other pump has to close it). Whatever the interleaving of the two pumps: the bytes that reach
// a stream are a prefix of the other stream's script, in order; if a stream's script was read
// to its end before anything was closed, all of it was delivered; both streams end up closed,
// the callback ran exactly twice and both pumps terminated (stuck class).
func H_C20_Proxy() {
	a := &pxStream{n: vrt.Int("na", 0, 2), chunk2: vrt.Bool("a2")}
	b := &pxStream{n: vrt.Int("nb", 0, 2), chunk2: vrt.Bool("b2"), blocking: vrt.Bool("bblock"), closedCh: make(chan struct{})}
	a.script = [3]byte{1, 2, 3}
	b.script = [3]byte{11, 12, 13}
	cbs := 0
	ioproxy.ProxyStreams(a, b, func() { vrt.Atomic(func() { cbs++ }) })
	vrt.AtQuiescence(func() {
		vrt.Assert(cbs == 2, "proxy-callback-twice")
		vrt.Assert(a.closed >= 1 && b.closed >= 1, "proxy-both-closed")
		// bytes that reached b are a prefix of a's script, and vice versa
		vrt.Assert(b.wn <= a.n && a.wn <= b.n, "proxy-no-extra-bytes")
		for i := 0; i < b.wn && i < 3; i++ {
			vrt.Assert(b.log[i] == a.script[i], "proxy-order-a-to-b")
		}
		for i := 0; i < a.wn && i < 3; i++ {
			vrt.Assert(a.log[i] == b.script[i], "proxy-order-b-to-a")
		}
		// everything that was read from a stream was delivered to the other one or the other
		// one had been closed already
		vrt.Assert(b.wn == a.rpos || b.closed > 0, "proxy-read-bytes-delivered")
	})
}
