package harness

import (
	"context"
	"errors"

	"github.com/aperturerobotics/util/memo"
	"github.com/aperturerobotics/util/promise"
	"gobmc/vrt"
)

// H_C16_Once: three Resolve callers on a promise.Once whose function fails on its first call
// (symbolic) and succeeds afterwards; the first caller's context may be cancelled at any time.
// The function never runs twice at once; after a success it is never called again and every
// caller with a live context gets that value; after an error it is called again; a cancelled
// caller gets context.Canceled and nobody else is prevented from getting the result.
func H_C16_Once() {
	errFirst := errors.New("first call fails")
	failFirst := vrt.Bool("fail-first")
	calls, active, succeeded := 0, 0, 0
	once := promise.NewOnce(func(ctx context.Context) (int, error) {
		var n int
		vrt.Atomic(func() {
			calls++
			n = calls
			active++
			vrt.Assert(active == 1, "once-function-overlap")
			vrt.Assert(succeeded == 0, "once-called-again-after-success")
		})
		var err error
		if failFirst && n == 1 {
			err = errFirst
		}
		vrt.Atomic(func() {
			active--
			if err == nil {
				succeeded++
			}
		})
		return 100 + n, err
	})
	var val int
	first := func(v int) {
		vrt.Atomic(func() {
			if val == 0 {
				val = v
			}
			vrt.Assert(val == v, "once-callers-disagree")
		})
	}
	vrt.Go("c1", func() {
		ctx, cancel := context.WithCancel(context.Background())
		cancelled := vrt.Bool("cancel-c1")
		if cancelled {
			vrt.CancelAnytime(cancel)
		}
		v, err := once.Resolve(ctx)
		if err == context.Canceled {
			vrt.Assert(cancelled, "once-canceled-without-cancel")
			vrt.Cover("once-caller-cancelled")
			return
		}
		if err != nil {
			vrt.Assert(err == errFirst && failFirst, "once-error-identity")
			return
		}
		first(v)
	})
	vrt.Go("c2", func() {
		v, err := once.Resolve(context.Background())
		if err != nil {
			vrt.Assert(err == errFirst && failFirst, "once-error-identity")
			// an error is not kept: a later Resolve calls the function again
			v, err = once.Resolve(context.Background())
			vrt.Assert(err == nil, "once-retry-after-error")
		}
		first(v)
	})
	vrt.Go("c3", func() {
		v, err := once.Resolve(context.Background())
		if err != nil {
			vrt.Assert(err == errFirst && failFirst, "once-error-identity")
			return
		}
		first(v)
	})
}

// H_C16_Once2: as H_C16_Once with two callers (quick tier).
func H_C16_Once2() {
	errFirst := errors.New("first call fails")
	failFirst := vrt.Bool("fail-first")
	calls, active, succeeded := 0, 0, 0
	once := promise.NewOnce(func(ctx context.Context) (int, error) {
		var n int
		vrt.Atomic(func() {
			calls++
			n = calls
			active++
			vrt.Assert(active == 1, "once-function-overlap")
			vrt.Assert(succeeded == 0, "once-called-again-after-success")
		})
		var err error
		if failFirst && n == 1 {
			err = errFirst
		}
		vrt.Atomic(func() {
			active--
			if err == nil {
				succeeded++
			}
		})
		return 100 + n, err
	})
	var val int
	first := func(v int) {
		vrt.Atomic(func() {
			if val == 0 {
				val = v
			}
			vrt.Assert(val == v, "once-callers-disagree")
		})
	}
	vrt.Go("c1", func() {
		ctx, cancel := context.WithCancel(context.Background())
		cancelled := vrt.Bool("cancel-c1")
		if cancelled {
			vrt.CancelAnytime(cancel)
		}
		v, err := once.Resolve(ctx)
		if err == context.Canceled {
			vrt.Assert(cancelled, "once-canceled-without-cancel")
			vrt.Cover("once-caller-cancelled")
			return
		}
		if err != nil {
			vrt.Assert(err == errFirst && failFirst, "once-error-identity")
			return
		}
		first(v)
	})
	vrt.Go("c2", func() {
		v, err := once.Resolve(context.Background())
		if err != nil {
			vrt.Assert(err == errFirst && failFirst, "once-error-identity")
			// an error is not kept: a later Resolve calls the function again
			v, err = once.Resolve(context.Background())
			vrt.Assert(err == nil, "once-retry-after-error")
		}
		first(v)
	})
}

// onceProbe builds a Once whose function fails on its first call if failFirst.
func onceProbe(failFirst bool, errFirst error) (*promise.Once[int], func(int)) {
	calls, active, succeeded := 0, 0, 0
	once := promise.NewOnce(func(ctx context.Context) (int, error) {
		var n int
		vrt.Atomic(func() {
			calls++
			n = calls
			active++
			vrt.Assert(active == 1, "once-function-overlap")
			vrt.Assert(succeeded == 0, "once-called-again-after-success")
		})
		var err error
		if failFirst && n == 1 {
			err = errFirst
		}
		vrt.Atomic(func() {
			active--
			if err == nil {
				succeeded++
			}
		})
		return 100 + n, err
	})
	val := 0
	first := func(v int) {
		vrt.Atomic(func() {
			if val == 0 {
				val = v
			}
			vrt.Assert(val == v, "once-callers-disagree")
		})
	}
	return once, first
}

// H_C16_OnceTwo: two concurrent Resolve callers, the function fails on its first call or not
// (symbolic): no overlap, no call after a success, both get the same value or the first error.
func H_C16_OnceTwo() {
	errFirst := errors.New("first call fails")
	failFirst := vrt.Bool("fail-first")
	once, first := onceProbe(failFirst, errFirst)
	caller := func() {
		v, err := once.Resolve(context.Background())
		if err != nil {
			vrt.Assert(err == errFirst && failFirst, "once-error-identity")
			return
		}
		first(v)
	}
	vrt.Go("c1", caller)
	vrt.Go("c2", caller)
}

// H_C16_OnceCancel: the caller that starts the call may be cancelled at any moment; the other
// caller still obtains a result; the cancelled caller gets context.Canceled.
func H_C16_OnceCancel() {
	once, first := onceProbe(false, nil)
	vrt.Go("c1", func() {
		ctx, cancel := context.WithCancel(context.Background())
		vrt.CancelAnytime(cancel)
		v, err := once.Resolve(ctx)
		if err != nil {
			vrt.Assert(err == context.Canceled, "once-canceled-caller-error")
			vrt.Cover("once-caller-cancelled")
			return
		}
		first(v)
	})
	vrt.Go("c2", func() {
		v, err := once.Resolve(context.Background())
		vrt.Assert(err == nil, "once-live-caller-prevented")
		first(v)
	})
}

// H_C16_OnceRetry: sequential: after an error a later Resolve calls the function again and the
// success is then kept for good.
func H_C16_OnceRetry() {
	errFirst := errors.New("first call fails")
	once, first := onceProbe(true, errFirst)
	_, err := once.Resolve(context.Background())
	vrt.Assert(err == errFirst, "once-first-error")
	v, err := once.Resolve(context.Background())
	vrt.Assert(err == nil && v == 102, "once-retry-after-error")
	first(v)
	v, err = once.Resolve(context.Background())
	vrt.Assert(err == nil && v == 102, "once-success-kept")
}

// H_C16_Memo: three concurrent callers of a memoized function: it is called exactly once and
// everybody receives that call's result (value and error).
func H_C16_Memo() {
	calls := 0
	errM := errors.New("memo error")
	fails := vrt.Bool("fails")
	f := memo.MemoizeFunc(func() (int, error) {
		var n int
		vrt.Atomic(func() { calls++; n = calls })
		if fails {
			return 40 + n, errM
		}
		return 40 + n, nil
	})
	caller := func() {
		v, err := f()
		vrt.Assert(v == 41, "memo-value")
		vrt.Assert((err == errM) == fails && (err == nil) == !fails, "memo-error")
	}
	vrt.Go("m1", caller)
	vrt.Go("m2", caller)
	vrt.Go("m3", caller)
	vrt.AtQuiescence(func() {
		var n int
		vrt.Atomic(func() { n = calls })
		vrt.Assert(n == 1, "memo-called-once")
	})
}

// H_C16_OnceCancelErr: as H_C16_OnceCancel, but the function reacts to the cancellation of the
// context it was given by returning its OWN error (not context.Canceled). That failure is due to
// the initiator's cancellation, so the caller with a live context must not receive it: it
// retries and obtains the value; the cancelled caller gets context.Canceled.
func H_C16_OnceCancelErr() {
	errAborted := errors.New("aborted because the context was cancelled")
	active := 0
	once := promise.NewOnce(func(ctx context.Context) (int, error) {
		vrt.Atomic(func() {
			active++
			vrt.Assert(active == 1, "once-function-overlap")
		})
		var err error
		if ctx.Err() != nil {
			err = errAborted
		}
		vrt.Atomic(func() { active-- })
		return 7, err
	})
	vrt.Go("c1", func() {
		ctx, cancel := context.WithCancel(context.Background())
		vrt.CancelAnytime(cancel)
		v, err := once.Resolve(ctx)
		if err != nil {
			vrt.Assert(err == context.Canceled, "once-canceled-caller-error")
			vrt.Cover("once-caller-cancelled")
			return
		}
		vrt.Assert(v == 7, "once-value")
	})
	vrt.Go("c2", func() {
		v, err := once.Resolve(context.Background())
		vrt.Assert(err == nil && v == 7, "once-live-caller-got-the-initiators-cancellation-failure")
	})
}
