package harness

import (
	"io"
	"math"

	"github.com/aperturerobotics/util/ioseek"
	"gobmc/vrt"
)

type nullReaderAt struct{}

func (nullReaderAt) ReadAt(p []byte, off int64) (int, error) { return 0, io.EOF }

// H_C20_SeekStep: one Seek from an arbitrary valid position behaves like the reference model
// (computed without overflow): out-of-range fails and leaves the position unchanged.
func H_C20_SeekStep() {
	size := int64(vrt.Int("size", 0, math.MaxInt64))
	pos0 := int64(vrt.Int("pos0", 0, math.MaxInt64))
	vrt.Assume(pos0 <= size)
	off := int64(vrt.Int("off", math.MinInt64, math.MaxInt64))
	whence := vrt.Int("whence", 0, 3)

	r := ioseek.NewReaderAtSeeker(nullReaderAt{}, size)
	if pos0 > 0 {
		p, err := r.Seek(pos0, io.SeekStart)
		vrt.Assert(err == nil && p == pos0, "seek-start-valid")
	}
	got, err := r.Seek(off, whence)
	cur, _ := r.Seek(0, io.SeekCurrent)

	// reference: target = base + off in unbounded integers
	var base int64
	valid := true
	switch whence {
	case io.SeekStart:
		base = 0
	case io.SeekCurrent:
		base = pos0
	case io.SeekEnd:
		base = size
	default:
		valid = false
	}
	inRange := false
	var want int64
	if valid {
		if off >= 0 {
			if base <= math.MaxInt64-off { // no overflow
				want = base + off
				inRange = want <= size
			}
		} else {
			want = base + off // base >= 0, off < 0: cannot overflow
			inRange = want >= 0
		}
	}
	if inRange {
		vrt.Assert(err == nil && got == want && cur == want, "seek-moves")
	} else {
		vrt.Assert(err != nil && cur == pos0, "seek-rejected-unchanged")
	}
}
