package harness

import (
	"errors"
	"io"
	"math"

	"github.com/aperturerobotics/util/iocloser"
	"github.com/aperturerobotics/util/ioseek"
	"github.com/aperturerobotics/util/iosizer"
	"gobmc/vrt"
)

// sizedReaderAt models a ReaderAt over exactly size bytes of data (content irrelevant).
type sizedReaderAt struct{ size int64 }

func (s sizedReaderAt) ReadAt(p []byte, off int64) (int, error) {
	if off < 0 {
		return 0, errors.New("negative offset")
	}
	if off >= s.size {
		return 0, io.EOF
	}
	n := int64(len(p))
	if n > s.size-off {
		return int(s.size - off), io.EOF
	}
	return int(n), nil
}

// seekRef is the overflow-safe reference for Seek from position pos0 in a file of length size.
func seekRef(size, pos0, off int64, whence int) (want int64, ok bool) {
	var base int64
	switch whence {
	case io.SeekStart:
		base = 0
	case io.SeekCurrent:
		base = pos0
	case io.SeekEnd:
		base = size
	default:
		return 0, false
	}
	if off >= 0 {
		if base > math.MaxInt64-off {
			return 0, false // mathematically beyond size
		}
		want = base + off
		return want, want <= size
	}
	want = base + off // base >= 0, off < 0: no overflow
	return want, want >= 0
}

// H_C20_SeekStep: ONE INDUCTIVE STEP. From an arbitrary valid state (0 <= pos0 <= size, all
// 64-bit values) one Seek with arbitrary (off, whence) behaves like the reference: in range =>
// moves there and returns it; out of range / bad whence => error and position unchanged. The
// invariant 0 <= pos <= size is re-established, so the step covers histories of any length.
func H_C20_SeekStep() {
	size := int64(vrt.Int("size", 0, math.MaxInt64))
	pos0 := int64(vrt.Int("pos0", 0, math.MaxInt64))
	vrt.Assume(pos0 <= size)
	off := int64(vrt.Int("off", math.MinInt64, math.MaxInt64))
	whence := vrt.Int("whence", -1, 3)

	r := ioseek.NewReaderAtSeeker(sizedReaderAt{size}, size)
	p, err := r.Seek(pos0, io.SeekStart)
	vrt.Assert(err == nil && p == pos0, "seek-start-valid")

	got, err := r.Seek(off, whence)
	cur, cerr := r.Seek(0, io.SeekCurrent)
	vrt.Assert(cerr == nil, "seek-current-ok")

	want, inRange := seekRef(size, pos0, off, whence)
	if inRange {
		vrt.Cover("seek-in-range")
		vrt.Assert(err == nil && got == want && cur == want, "seek-moves")
	} else {
		vrt.Cover("seek-rejected")
		vrt.Assert(err != nil && cur == pos0, "seek-rejected-unchanged")
	}
	vrt.Assert(cur >= 0 && cur <= size, "seek-invariant")
}

// H_C20_ReadStep: one inductive step for Read: from an arbitrary valid position, Read(p) with
// an arbitrary buffer length returns what a section reader over size bytes returns and advances
// the position by exactly the returned count.
func H_C20_ReadStep() {
	size := int64(vrt.Int("size", 0, math.MaxInt64))
	pos0 := int64(vrt.Int("pos0", 0, math.MaxInt64))
	vrt.Assume(pos0 <= size)
	buf := vrt.Bytes("p", 8, 8)

	r := ioseek.NewReaderAtSeeker(sizedReaderAt{size}, size)
	_, err := r.Seek(pos0, io.SeekStart)
	vrt.Assert(err == nil, "seek-start-valid")
	n, rerr := r.Read(buf)
	cur, _ := r.Seek(0, io.SeekCurrent)

	// reference
	avail := size - pos0
	want := int64(len(buf))
	eof := false
	if pos0 >= size {
		want, eof = 0, true
	} else if want > avail {
		want, eof = avail, true
	}
	vrt.Assert(int64(n) == want, "read-count")
	vrt.Assert((rerr == io.EOF) == eof && (rerr == nil) == !eof, "read-eof")
	vrt.Assert(cur == pos0+want, "read-advances")
	vrt.Assert(cur >= 0 && cur <= size, "read-invariant")
}

// ---- iosizer ----

type scriptRW struct {
	k int
}

func (s *scriptRW) Read(p []byte) (int, error) {
	n := vrtN(s.k, len(p))
	s.k++
	var err error
	if vrtB(s.k) {
		err = io.ErrUnexpectedEOF
	}
	return n, err
}

func (s *scriptRW) Write(p []byte) (int, error) {
	n := vrtN(s.k, len(p))
	s.k++
	var err error
	if vrtB(s.k) {
		err = io.ErrShortWrite
	}
	return n, err
}

// vrtN / vrtB: the k-th scripted outcome (distinct input names per call index).
func vrtN(k, max int) int {
	var n int
	switch k {
	case 0:
		n = vrt.Int("n0", 0, 8)
	case 1:
		n = vrt.Int("n1", 0, 8)
	case 2:
		n = vrt.Int("n2", 0, 8)
	default:
		n = vrt.Int("n3", 0, 8)
	}
	vrt.Assume(n <= max)
	return n
}

func vrtB(k int) bool {
	switch k {
	case 1:
		return vrt.Bool("e0")
	case 2:
		return vrt.Bool("e1")
	case 3:
		return vrt.Bool("e2")
	}
	return vrt.Bool("e3")
}

// H_C20_Sizer: four calls (each Read or Write, symbolic), wrapped streams return arbitrary
// (n, err) with 0 <= n <= len(p): the total equals the sum of the returned counts, and every
// call returns exactly what the wrapped stream returned.
func H_C20_Sizer() {
	rw := &scriptRW{}
	s := iosizer.NewSizeReadWriter(rw, rw)
	var sum uint64
	b0 := vrt.Bytes("b0", 8, 8)
	isRead := [4]bool{vrt.Bool("r0"), vrt.Bool("r1"), vrt.Bool("r2"), vrt.Bool("r3")}
	for i := 0; i < 4; i++ {
		var n int
		if isRead[i] {
			n, _ = s.Read(b0)
		} else {
			n, _ = s.Write(b0)
		}
		vrt.Assert(n >= 0 && n <= len(b0), "sizer-count-range")
		sum += uint64(n)
		vrt.Assert(s.TotalSize() == sum, "sizer-total")
	}
	// nil streams report EOF and count nothing
	z := iosizer.NewSizeReadWriter(nil, nil)
	n, err := z.Read(b0)
	vrt.Assert(n == 0 && err == io.EOF && z.TotalSize() == 0, "sizer-nil-reader")
}

// ---- iocloser ----

type countRW struct {
	reads, writes int
}

func (c *countRW) Read(p []byte) (int, error)  { c.reads++; return len(p), nil }
func (c *countRW) Write(p []byte) (int, error) { c.writes++; return len(p), nil }

// H_C20_Closer: histories of four operations (Read/Write vs Close, symbolic) on a ReadCloser
// and a WriteCloser over counting stubs: data passes through until Close; the close function
// runs exactly once (and its error is returned by that Close); afterwards EOF is reported and
// the wrapped stream is not touched.
func H_C20_Closer() {
	errClose := errors.New("close failed")
	under := &countRW{}
	nclose := 0
	closeFn := func() error { nclose++; return errClose }
	rc := iocloser.NewReadCloser(under, closeFn)
	wc := iocloser.NewWriteCloser(under, closeFn)
	buf := vrt.Bytes("b", 4, 4)
	ops := [4]int{vrt.Int("op0", 0, 3), vrt.Int("op1", 0, 3), vrt.Int("op2", 0, 3), vrt.Int("op3", 0, 3)}
	rClosed, wClosed := false, false
	wantReads, wantWrites, wantClose := 0, 0, 0
	for i := 0; i < 4; i++ {
		switch ops[i] {
		case 0:
			n, err := rc.Read(buf)
			if rClosed {
				vrt.Assert(n == 0 && err == io.EOF, "closer-read-after-close")
			} else {
				wantReads++
				vrt.Assert(n == len(buf) && err == nil, "closer-read-through")
			}
		case 1:
			n, err := wc.Write(buf)
			if wClosed {
				vrt.Assert(n == 0 && err == io.EOF, "closer-write-after-close")
			} else {
				wantWrites++
				vrt.Assert(n == len(buf) && err == nil, "closer-write-through")
			}
		case 2:
			err := rc.Close()
			if rClosed {
				vrt.Assert(err == nil, "closer-second-close-nil")
			} else {
				wantClose++
				vrt.Assert(err == errClose, "closer-close-error")
			}
			rClosed = true
		default:
			err := wc.Close()
			if wClosed {
				vrt.Assert(err == nil, "closer-second-close-nil")
			} else {
				wantClose++
				vrt.Assert(err == errClose, "closer-close-error")
			}
			wClosed = true
		}
		vrt.Assert(under.reads == wantReads && under.writes == wantWrites, "closer-underlying-calls")
		vrt.Assert(nclose == wantClose, "closer-close-once")
	}
}

// ---- unique ----
