package harness

import (
	"context"

	"github.com/aperturerobotics/util/cqueue"
	"github.com/aperturerobotics/util/promise"
	"gobmc/vrt"
)

// H_C12_Conserve: two threads push one value each and pop once; nothing is lost or duplicated.
func H_C12_Conserve() {
	var q cqueue.AtomicLIFO[int]
	var got [2]int
	vrt.Go("a", func() {
		q.Push(1)
		got[0] = q.Pop()
	})
	vrt.Go("b", func() {
		q.Push(2)
		got[1] = q.Pop()
	})
	vrt.AtQuiescence(func() {
		// each thread pushed before it popped, so neither pop can see an empty stack
		vrt.Assert(got[0] != 0 && got[1] != 0, "pop-nonempty")
		vrt.Assert(got[0] != got[1], "pop-distinct")
		vrt.Assert(q.Pop() == 0, "drained")
	})
}

// H_C11_CanceledResult: a PromiseContainer awaiter must return a result whose error is
// context.Canceled instead of spinning.
func H_C11_CanceledResult() {
	pc := promise.NewPromiseContainer[int]()
	pc.SetResult(7, context.Canceled)
	_, err := pc.Await(context.Background())
	vrt.Assert(err == context.Canceled, "await-returns-result")
}
