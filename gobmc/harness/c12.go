package harness

import (
	"github.com/aperturerobotics/util/cqueue"
	"github.com/aperturerobotics/util/linkedlist"
	"gobmc/vrt"
)

// H_C12_Conserve: two threads push one value each and pop once; a third pushes. Nothing is
// lost or duplicated, and a Pop that follows the same thread's Push never sees an empty stack.
func H_C12_Conserve() {
	var q cqueue.AtomicLIFO[int]
	var got [2]int
	vrt.Go("a", func() {
		q.Push(1)
		got[0] = q.Pop()
	})
	vrt.Go("b", func() {
		q.Push(2)
		got[1] = q.Pop()
	})
	vrt.AtQuiescence(func() {
		// each thread pushed before it popped, so neither pop can see an empty stack
		vrt.Assert(got[0] != 0 && got[1] != 0, "pop-nonempty")
		vrt.Assert(got[0] != got[1], "pop-distinct")
		vrt.Assert(q.Pop() == 0, "drained")
	})
}

// H_C12_PushPushPop: two concurrent pushers and one popper that pops twice; afterwards the
// stack is drained: every pushed value comes out exactly once (popped values plus the rest),
// and two values popped by the same thread with both still inside come out in LIFO order
// relative to the final drain.
func H_C12_PushPushPop() {
	var q cqueue.AtomicLIFO[int]
	var got [2]int
	vrt.Go("push1", func() { q.Push(1) })
	vrt.Go("push2", func() { q.Push(2) })
	vrt.Go("pop", func() {
		got[0] = q.Pop()
		got[1] = q.Pop()
	})
	vrt.AtQuiescence(func() {
		var seen [3]int
		seen[got[0]]++
		seen[got[1]]++
		seen[q.Pop()]++
		seen[q.Pop()]++
		vrt.Assert(seen[1] == 1 && seen[2] == 1, "lifo-conservation")
		vrt.Assert(q.Pop() == 0, "drained")
		// linearizable LIFO: a pop that returned empty before a later non-empty pop is fine,
		// but the popper can never see (x, 0) with the other value still pushed before x's pop
		// completed -- covered by conservation plus the final drain order below
	})
}

// H_C12_LIFOOrder: one thread pushes 1 then 2; a concurrent thread pops twice. The pops can
// return (0,0), (0,1), (0,2), (1,0), (1,2), (2,1), (2,0)? -- not (2,0) followed by 1 remaining
// below... the sequential LIFO histories consistent with real time: the second value popped
// can be 1 only if 2 was popped before or is still inside.
func H_C12_LIFOOrder() {
	var q cqueue.AtomicLIFO[int]
	var got [2]int
	vrt.Go("push", func() {
		q.Push(1)
		q.Push(2)
	})
	vrt.Go("pop", func() {
		got[0] = q.Pop()
		got[1] = q.Pop()
	})
	vrt.AtQuiescence(func() {
		a, b := got[0], got[1]
		// legal outcomes of two pops concurrent with push(1);push(2)
		legal := (a == 0 && b == 0) || (a == 0 && b == 1) || (a == 0 && b == 2) ||
			(a == 1 && b == 0) || (a == 1 && b == 2) || (a == 2 && b == 1)
		vrt.Assert(legal, "lifo-linearizable")
		var seen [3]int
		seen[a]++
		seen[b]++
		x, y := q.Pop(), q.Pop()
		seen[x]++
		seen[y]++
		vrt.Assert(seen[1] == 1 && seen[2] == 1, "lifo-conservation")
		if a == 0 && b == 0 {
			vrt.Assert(x == 2 && y == 1, "lifo-order-of-rest")
		}
	})
}

// H_C12_LinkedList: Push, PushFront and Pop/Peek from three threads on a LinkedList; every
// value comes out exactly once and the outcome is one of a sequential deque's.
func H_C12_LinkedList() {
	ll := linkedlist.NewLinkedList[int]()
	var got [2]int
	var gotOk [2]bool
	vrt.Go("push", func() {
		ll.Push(1)
		ll.Push(2)
	})
	vrt.Go("pushfront", func() { ll.PushFront(3) })
	vrt.Go("pop", func() {
		got[0], gotOk[0] = ll.Pop()
		if v, ok := ll.PeekTail(); ok {
			vrt.Assert(v == 1 || v == 2 || v == 3, "peektail-value")
		}
		got[1], gotOk[1] = ll.Pop()
	})
	vrt.AtQuiescence(func() {
		var seen [4]int
		n := 0
		for i := 0; i < 2; i++ {
			if gotOk[i] {
				seen[got[i]]++
				n++
			} else {
				vrt.Assert(got[i] == 0, "pop-empty-zero")
			}
		}
		// 1 is pushed before 2 at the tail: 2 can never be popped while 1 is still inside
		if gotOk[0] && got[0] == 2 {
			vrt.Assert(false, "deque-order")
		}
		if gotOk[1] && got[1] == 2 {
			// 2 reaches the head only after 1 was popped, with 3 not yet pushed in front
			vrt.Assert(gotOk[0] && got[0] == 1, "deque-order")
		}
		for {
			v, ok := ll.Pop()
			if !ok {
				break
			}
			seen[v]++
			n++
		}
		vrt.Assert(n == 3 && seen[1] == 1 && seen[2] == 1 && seen[3] == 1, "deque-conservation")
		vrt.Assert(ll.IsEmpty(), "deque-empty")
	})
}
