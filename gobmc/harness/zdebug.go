package harness

import "gobmc/vrt"

func dbgCheck(n int, calls [3]*int) {
	for i := 0; i < n; i++ {
		var c int
		vrt.Atomic(func() { c = *calls[i] })
		vrt.Assert(c == 1, "dbg-count")
	}
}

func dbgEntry(calls *int) func() {
	return func() { vrt.Atomic(func() { *calls++ }) }
}

// H_DBG_Counters: engine self-test.
func H_DBG_Counters() {
	var c0, c1 int
	calls := [3]*int{&c0, &c1, nil}
	f0 := dbgEntry(calls[0])
	f1 := dbgEntry(calls[1])
	vrt.Go("a", f0)
	vrt.Go("b", f1)
	vrt.AtQuiescence(func() { dbgCheck(2, calls) })
}
