package harness

import (
	"github.com/aperturerobotics/util/commonprefix"
	"gobmc/vrt"
)

// lcpRef is the reference: length of the longest common prefix of a and b, byte-wise.
func lcpRef(a, b string) int {
	n := 0
	for n < len(a) && n < len(b) && a[n] == b[n] {
		n++
	}
	return n
}

// H_C19_Prefix2: for two strings of arbitrary bytes (lengths case split, bytes symbolic,
// including bytes >= 0x80 and invalid UTF-8) Prefix returns exactly the longest common prefix.
func H_C19_Prefix2() {
	a := vrt.String("a", 4)
	b := vrt.String("b", 4)
	want := lcpRef(a, b)
	got := commonprefix.Prefix(a, b)
	vrt.Assert(len(got) == want, "prefix-is-longest")
	vrt.Assert(got == a[:want], "prefix-is-prefix")
}

// H_C19_Prefix3: three strings.
func H_C19_Prefix3() {
	a := vrt.String("a", 3)
	b := vrt.String("b", 3)
	d := vrt.String("d", 3)
	want := lcpRef(a, b)
	if w2 := lcpRef(a, d); w2 < want {
		want = w2
	}
	got := commonprefix.Prefix(a, b, d)
	vrt.Assert(len(got) == want, "prefix-is-longest")
	vrt.Assert(got == a[:want], "prefix-is-prefix")
}

// H_C19_TrimPrefix: TrimPrefix removes exactly the longest common prefix from every string.
func H_C19_TrimPrefix() {
	a := vrt.String("a", 3)
	b := vrt.String("b", 3)
	want := lcpRef(a, b)
	strs := []string{a, b}
	commonprefix.TrimPrefix(strs...)
	vrt.Assert(strs[0] == a[want:], "trim-removes-prefix")
	vrt.Assert(strs[1] == b[want:], "trim-removes-prefix")
}
