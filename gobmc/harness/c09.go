package harness

import (
	"context"

	"github.com/aperturerobotics/util/refcount"
	"gobmc/vrt"
)

// H_C09_Overlap: one reference, context set; the context is replaced twice while the first
// resolver call is still returning. The resolver must never run in two calls at once.
func H_C09_Overlap() {
	var resolving int
	resolver := func(ctx context.Context, released func()) (int, func(), error) {
		vrt.Atomic(func() {
			resolving++
			vrt.Assert(resolving == 1, "resolver-overlap")
		})
		<-ctx.Done()
		vrt.Atomic(func() { resolving-- })
		return 0, nil, context.Canceled
	}
	ctxA, _ := context.WithCancel(context.Background())
	ctxB, _ := context.WithCancel(context.Background())
	ctxC, _ := context.WithCancel(context.Background())
	rc := refcount.NewRefCount[int](ctxA, false, nil, nil, resolver)
	rc.AddRef(func(resolved bool, val int, err error) {})
	rc.SetContext(ctxB)
	rc.SetContext(ctxC)
	rc.ClearContext() // every resolver call is eventually told to stop
}

// H_C09_NilCb: AddRef(nil) on a container that may already be resolved must not panic.
func H_C09_NilCb() {
	resolver := func(ctx context.Context, released func()) (int, func(), error) {
		return 7, nil, nil
	}
	rc := refcount.NewRefCount[int](context.Background(), false, nil, nil, resolver)
	r1 := rc.AddRef(func(resolved bool, val int, err error) {})
	vrt.Go("second", func() {
		r2 := rc.AddRef(nil)
		r2.Release()
	})
	_ = r1
}

// H_C09_EarlyReleased: the resolver invalidates the value it is about to return (it calls
// released() before its own call has returned). released() makes the value be dropped and
// resolved afresh: the resolver is called a second time and the reference ends up with the
// second value, not with the stale first one.
func H_C09_EarlyReleased() {
	var calls, last int
	var lastResolved bool
	resolver := func(ctx context.Context, released func()) (int, func(), error) {
		var n int
		vrt.Atomic(func() { calls++; n = calls })
		if n == 1 {
			released()
		}
		return n, nil, nil
	}
	rc := refcount.NewRefCount[int](context.Background(), false, nil, nil, resolver)
	rc.AddRef(func(resolved bool, val int, err error) {
		vrt.Atomic(func() { lastResolved, last = resolved, val })
	})
	vrt.AtQuiescence(func() {
		var n, v int
		var ok bool
		vrt.Atomic(func() { n, v, ok = calls, last, lastResolved })
		vrt.Assert(n >= 2, "released-value-not-resolved-afresh")
		vrt.Assert(ok && v == n, "reference-left-with-stale-value")
		vrt.Cover("settled")
	})
}
