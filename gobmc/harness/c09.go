package harness

import (
	"context"

	"github.com/aperturerobotics/util/refcount"
	"gobmc/vrt"
)

// H_C09_Overlap: one reference, context set; the context is replaced twice while the first
// resolver call is still returning. The resolver must never run in two calls at once.
func H_C09_Overlap() {
	var resolving int
	resolver := func(ctx context.Context, released func()) (int, func(), error) {
		vrt.Atomic(func() {
			resolving++
			vrt.Assert(resolving == 1, "resolver-overlap")
		})
		<-ctx.Done()
		vrt.Atomic(func() { resolving-- })
		return 0, nil, context.Canceled
	}
	ctxA, _ := context.WithCancel(context.Background())
	ctxB, _ := context.WithCancel(context.Background())
	ctxC, _ := context.WithCancel(context.Background())
	rc := refcount.NewRefCount[int](ctxA, false, nil, nil, resolver)
	rc.AddRef(func(resolved bool, val int, err error) {})
	rc.SetContext(ctxB)
	rc.SetContext(ctxC)
	rc.ClearContext() // every resolver call is eventually told to stop
}

// H_C09_NilCb: AddRef(nil) on a container that may already be resolved must not panic.
func H_C09_NilCb() {
	resolver := func(ctx context.Context, released func()) (int, func(), error) {
		return 7, nil, nil
	}
	rc := refcount.NewRefCount[int](context.Background(), false, nil, nil, resolver)
	r1 := rc.AddRef(func(resolved bool, val int, err error) {})
	vrt.Go("second", func() {
		r2 := rc.AddRef(nil)
		r2.Release()
	})
	_ = r1
}
