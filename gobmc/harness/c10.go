package harness

import (
	"context"

	"github.com/aperturerobotics/util/refcount"
	"gobmc/vrt"
)

// H_C10_Access: one Access caller, one invalidation (released()) at any time. The callback must
// finally be invoked with the value that is current, and Access must return.
func H_C10_Access() {
	var n int
	var releasedFn func()
	resolver := func(ctx context.Context, released func()) (int, func(), error) {
		var v int
		vrt.Atomic(func() {
			n++
			v = n
			releasedFn = released
		})
		return v, nil, nil
	}
	rc := refcount.NewRefCount[int](context.Background(), true, nil, nil, resolver)
	var last int
	vrt.Go("invalidator", func() {
		var f func()
		vrt.Atomic(func() { f = releasedFn })
		if f != nil {
			f()
		}
	})
	err := rc.Access(context.Background(), func(ctx context.Context, val int) error {
		vrt.Atomic(func() { last = val })
		return nil
	})
	vrt.Assert(err == nil, "access-nil")
	vrt.AtQuiescence(func() {
		var cur int
		vrt.Atomic(func() { cur = n })
		vrt.Assert(last >= 1 && last <= cur, "access-saw-a-resolved-value")
	})
}
