package harness

import (
	"github.com/aperturerobotics/util/unique"
	"gobmc/vrt"
)

// uniqModel is the reference: one value per key (keys 0..2).
type uniqModel struct {
	has [3]bool
	val [3]int
}

func uKey(v int) int { return v % 3 }

// H_C20_KeyedListStep: ONE INDUCTIVE STEP of unique.KeyedList. The pre-state is an arbitrary
// valid list over three keys (each key absent or holding an arbitrary value of that key); one
// call (SetValues / AppendValues / RemoveValues / RemoveKeys; kind and argument count are case
// split, the values are symbolic, duplicates inside the call allowed) with cmp = equality or a
// coarser relation (symbolic). Afterwards the contents equal the reference model, hold one
// value per key, and the notification log replayed on the previous contents reproduces the new
// contents exactly. Because the pre-state is arbitrary, the step covers histories of any length.
func H_C20_KeyedListStep() {
	coarse := vrt.Bool("coarse")
	cmp := func(k int, a, b int) bool {
		if coarse {
			return a/6 == b/6 // values 0..5 are "equal", 6..11 are "equal"
		}
		return a == b
	}
	var shadow uniqModel // driven only by the notifications
	var ref uniqModel    // reference semantics
	armed := false
	changed := func(k int, v int, added, removed bool) {
		if !armed {
			return
		}
		vrt.Assert(k >= 0 && k < 3 && uKey(v) == k, "uniq-notify-key")
		if removed {
			vrt.Assert(!added, "uniq-notify-flags")
			vrt.Assert(shadow.has[k] && shadow.val[k] == v, "uniq-notify-removed-old-value")
			shadow.has[k] = false
			shadow.val[k] = 0
		} else if added {
			vrt.Assert(!shadow.has[k], "uniq-notify-added-absent")
			shadow.has[k] = true
			shadow.val[k] = v
		} else {
			vrt.Assert(shadow.has[k] && shadow.val[k] != v, "uniq-notify-changed-differs")
			shadow.val[k] = v
		}
	}
	// arbitrary valid pre-state
	pre := [3]int{vrt.Int("s0", 0, 11), vrt.Int("s1", 0, 11), vrt.Int("s2", 0, 11)}
	has := [3]bool{vrt.Bool("h0"), vrt.Bool("h1"), vrt.Bool("h2")}
	l := unique.NewKeyedList[int, int](uKey, cmp, changed, nil)
	for k := 0; k < 3; k++ {
		vrt.Assume(uKey(pre[k]) == k)
		if has[k] {
			l.AppendValues(pre[k])
			ref.has[k], ref.val[k] = true, pre[k]
		}
	}
	shadow = ref
	armed = true

	vals := [3]int{vrt.Int("v0", 0, 11), vrt.Int("v1", 0, 11), vrt.Int("v2", 0, 11)}
	n := vrt.Int("n", 0, 3)
	op := vrt.Int("op", 0, 3)
	args := vals[:n]
	switch op {
	case 0:
		l.SetValues(args...)
		var seen [3]bool
		for _, v := range args {
			k := uKey(v)
			seen[k] = true
			if !ref.has[k] || !cmp(k, v, ref.val[k]) {
				ref.has[k], ref.val[k] = true, v
			}
		}
		for k := 0; k < 3; k++ {
			if !seen[k] {
				ref.has[k], ref.val[k] = false, 0
			}
		}
	case 1:
		l.AppendValues(args...)
		for _, v := range args {
			k := uKey(v)
			if !ref.has[k] || !cmp(k, v, ref.val[k]) {
				ref.has[k], ref.val[k] = true, v
			}
		}
	case 2:
		l.RemoveValues(args...)
		for _, v := range args {
			ref.has[uKey(v)], ref.val[uKey(v)] = false, 0
		}
	default:
		keys := []int{uKey(vals[0]), uKey(vals[1]), uKey(vals[2])}
		l.RemoveKeys(keys[:n]...)
		for _, k := range keys[:n] {
			ref.has[k], ref.val[k] = false, 0
		}
	}
	// contents == reference == shadow
	got := l.GetValues()
	var cnt [3]int
	for _, v := range got {
		k := uKey(v)
		cnt[k]++
		vrt.Assert(ref.has[k] && ref.val[k] == v, "uniq-contents-vs-model")
	}
	for k := 0; k < 3; k++ {
		want := 0
		if ref.has[k] {
			want = 1
		}
		vrt.Assert(cnt[k] == want, "uniq-one-value-per-key")
		vrt.Assert(shadow.has[k] == ref.has[k] && shadow.val[k] == ref.val[k], "uniq-notifications-replay")
	}
}
