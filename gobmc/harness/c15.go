package harness

import (
	"context"
	"errors"

	"github.com/aperturerobotics/util/ccontainer"
	"gobmc/vrt"
)

// H_C15_Swap: two concurrent SwapValue increments and one SetValue(10): no update is lost or
// interleaved (the final value is one a sequential order of the three writers produces), and a
// WaitValueChange waiter returns a value that was really written.
func H_C15_Swap() {
	c := ccontainer.NewCContainer[int](0)
	inc := func(v int) int { return v + 1 }
	var r [2]int
	vrt.Go("swap1", func() { r[0] = c.SwapValue(inc) })
	vrt.Go("swap2", func() { r[1] = c.SwapValue(inc) })
	vrt.Go("set", func() { c.SetValue(10) })
	vrt.Go("waiter", func() {
		v, err := c.WaitValueChange(context.Background(), 0, nil)
		vrt.Assert(err == nil, "wait-change-error")
		vrt.Assert(v == 1 || v == 2 || v == 10 || v == 11 || v == 12, "wait-change-value-was-written")
	})
	vrt.AtQuiescence(func() {
		f := c.GetValue()
		// sequential orders of {+1, +1, =10}: 10, 11, 12
		vrt.Assert(f == 10 || f == 11 || f == 12, "swap-update-lost")
		vrt.Assert(r[0] != r[1], "swap-interleaved")
		if f == 12 {
			vrt.Assert((r[0] == 11 && r[1] == 12) || (r[0] == 12 && r[1] == 11), "swap-results")
		}
	})
}

// H_C15_Waiters: a writer sets 0 -> 5 -> 0; a WaitValue waiter (non-empty), a WaitValueEmpty
// waiter started when the value may be 5, and a waiter with a validator that wants exactly 5 or
// fails with its own error on a negative value; one waiter may be cancelled at any time, one has
// an error channel on which an error may arrive. Waiters return only satisfying values that
// were written, errors only from their source, and nobody stays blocked while satisfied.
func H_C15_Waiters() {
	c := ccontainer.NewCContainer[int](0)
	errNeg := errors.New("negative")
	errCh := make(chan error, 1)
	errSent := errors.New("sent")
	sent := false
	vrt.Go("writer", func() {
		c.SetValue(5)
		if vrt.Bool("send-error") {
			vrt.Atomic(func() { sent = true })
			errCh <- errSent
		}
	})
	vrt.Go("wait-value", func() {
		ctx, cancel := context.WithCancel(context.Background())
		cancelled := vrt.Bool("cancel")
		if cancelled {
			vrt.CancelAnytime(cancel)
		}
		v, err := c.WaitValue(ctx, nil)
		if err != nil {
			vrt.Assert(cancelled && err == context.Canceled && v == 0, "waitvalue-error-only-if-cancelled")
			return
		}
		vrt.Assert(v == 5, "waitvalue-satisfying-written-value")
	})
	vrt.Go("wait-validator", func() {
		v, err := c.WaitValueWithValidator(context.Background(), func(v int) (bool, error) {
			if v < 0 {
				return false, errNeg
			}
			return v == 5, nil
		}, errCh)
		if err != nil {
			var s bool
			vrt.Atomic(func() { s = sent })
			vrt.Assert(err == errSent && s, "validator-wait-error-only-from-channel")
			return
		}
		vrt.Assert(v == 5, "validator-wait-value")
	})
}

// H_C15_Equal: with a custom equality (values equal modulo 10) SetValue of an "equal" value
// does not replace the content, and a WaitValueChange waiter is not satisfied by it: it returns
// only with the really different value written concurrently.
func H_C15_Equal() {
	c := ccontainer.NewCContainerWithEqual[int](1, func(a, b int) bool { return a%10 == b%10 })
	c.SetValue(11)
	vrt.Assert(c.GetValue() == 1, "equal-value-replaced-content")
	vrt.Go("set-other", func() { c.SetValue(2) })
	vrt.Go("waiter", func() {
		v, err := c.WaitValueChange(context.Background(), 21, nil)
		vrt.Assert(err == nil && v == 2, "equal-values-are-no-change")
	})
	vrt.AtQuiescence(func() {
		vrt.Assert(c.GetValue() == 2, "equal-final")
	})
}

// H_C15_EqualEmpty: "empty" is decided by the container's own equality function: with
// equality modulo 10 the value 10 equals the zero value, so a WaitValueEmpty waiter returns
// once the writer has stored 10 (and never stays blocked while the content is empty in that
// sense: stuck class), while the same content does not satisfy WaitValue.
func H_C15_EqualEmpty() {
	c := ccontainer.NewCContainerWithEqual[int](1, func(a, b int) bool { return a%10 == b%10 })
	vrt.Go("set-empty-equivalent", func() { c.SetValue(10) })
	vrt.Go("empty-waiter", func() {
		err := c.WaitValueEmpty(context.Background(), nil)
		vrt.Assert(err == nil, "waitvalueempty-error")
		vrt.Cover("empty-waiter-returned")
	})
}
