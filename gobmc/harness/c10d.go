package harness

import (
	"context"

	"github.com/aperturerobotics/util/refcount"
	"gobmc/vrt"
)

// c10Consumer: a consumer obtains the value through ResolveWithReleased (flavour 0) or Resolve
// (flavour 1) and keeps its reference until the system is quiet; the resolver's released()
// callback may invalidate the value while the consumer holds it (symbolic whether; the
// invalidation racing the acquisition is H_C10_WaitWithReleased). A value handed to
// the consumer has not been released unless it was invalidated; the consumer's released
// callback fires at most once, and exactly once if the invalidation came while it held the
// value; in the end every value is released exactly once.
func c10Consumer(flavour int) {
	calls := 0
	var relRan [4]int
	var lastRel func()
	resolver := func(ctx context.Context, released func()) (int, func(), error) {
		var n int
		vrt.Atomic(func() {
			calls++
			n = calls
			lastRel = released
		})
		return 10 + n, func() {
			vrt.Atomic(func() {
				if n < 4 {
					relRan[n]++
				}
			})
		}, nil
	}
	rc := refcount.NewRefCount[int](context.Background(), false, nil, nil, resolver)
	inv, got, mustFire, fired := false, 0, false, 0
	var consumerRel func()
	doInv := vrt.Bool("invalidate")
	{
		var val int
		var rel func()
		var err error
		if flavour == 0 {
			val, rel, err = rc.ResolveWithReleased(context.Background(), func() {
				vrt.Atomic(func() { fired++ })
			})
		} else {
			val, rel, err = rc.Resolve(context.Background())
		}
		vrt.Assert(err == nil && rel != nil, "resolve-error")
		vrt.Atomic(func() {
			vrt.Assert(val == 11 && relRan[1] == 0, "value-released-while-referenced")
			got = val
			consumerRel = rel
		})
	}
	if doInv {
		// the resolver reports, while the consumer holds the value, that it is no longer valid
		var f func()
		vrt.Atomic(func() {
			f = lastRel
			inv = true
			mustFire = true
		})
		f()
	}
	vrt.AtQuiescence(func() {
		var rel func()
		vrt.Atomic(func() {
			rel = consumerRel
			vrt.Assert(got != 0, "consumer-has-no-value")
			vrt.Assert(fired <= 1, "released-callback-fired-twice")
			if !inv {
				vrt.Assert(relRan[1] == 0 && fired == 0, "value-released-while-referenced")
			}
			if mustFire && flavour == 0 {
				vrt.Assert(fired == 1, "released-callback-not-fired-after-invalidation")
			}
			if got == 12 {
				vrt.Assert(relRan[2] == 0, "value-released-while-referenced")
			}
		})
		rel()
		rc.ClearContext()
		vrt.AtQuiescence(func() {
			vrt.Atomic(func() {
				for n := 1; n <= calls && n < 4; n++ {
					vrt.Assert(relRan[n] == 1, "value-not-released-exactly-once")
				}
				vrt.Assert(fired <= 1, "released-callback-fired-twice")
			})
			vrt.Cover("consumer-end-reached")
		})
	})
}

// H_C10_ResolveWithReleased / H_C10_Resolve: see c10Consumer.
func H_C10_ResolveWithReleased() { c10Consumer(0) }
func H_C10_Resolve()             { c10Consumer(1) }
