package harness

import (
	"context"
	"time"

	"github.com/aperturerobotics/util/keyed"
	"gobmc/vrt"
)

func untilCancelled(ctx context.Context) error {
	<-ctx.Done()
	return context.Canceled
}

// H_C06_SyncKeepsKey: a key removed with a release delay and then requested again by SyncKeys
// before the delay expires must be kept for good.
func H_C06_SyncKeepsKey() {
	ctor := func(key int) (keyed.Routine, int) { return untilCancelled, key }
	k := keyed.NewKeyed[int, int](ctor, keyed.WithReleaseDelay[int, int](time.Second))
	k.SetContext(context.Background(), true)
	k.SetKey(1, true)
	k.RemoveKey(1)
	if vrt.Bool("via-setkey") {
		k.SetKey(1, false)
	} else {
		k.SyncKeys([]int{1}, false)
	}
	vrt.Advance()
	vrt.AtQuiescence(func() {
		_, ok := k.GetKey(1)
		vrt.Assert(ok, "rerequested-key-kept")
		k.ClearContext()
	})
}
