package harness

import (
	"context"
	"time"

	"github.com/aperturerobotics/util/keyed"
	"gobmc/vrt"
)

func untilCancelled(ctx context.Context) error {
	<-ctx.Done()
	return context.Canceled
}

// H_C06_SyncKeepsKey: a key removed with a release delay and then requested again (by SetKey
// or by SyncKeys, symbolic) before the delay expires must be kept for good. The container has
// a context, so the key's routine is really running.
func H_C06_SyncKeepsKey() {
	ctor := func(key int) (keyed.Routine, int) { return untilCancelled, key }
	k := keyed.NewKeyed[int, int](ctor, keyed.WithReleaseDelay[int, int](time.Second))
	k.SetContext(context.Background(), true)
	k.SetKey(1, true)
	k.RemoveKey(1)
	if vrt.Bool("via-setkey") {
		k.SetKey(1, false)
	} else {
		k.SyncKeys([]int{1}, false)
	}
	vrt.Advance()
	vrt.AtQuiescence(func() {
		_, ok := k.GetKey(1)
		vrt.Assert(ok, "rerequested-key-kept")
		k.ClearContext()
	})
}

// keyModel is the reference for the key set over keys {1,2}.
type keyModel struct {
	present [3]bool
	pending [3]bool // delayed removal pending
	delay   bool
}

func (m *keyModel) remove(k int) bool {
	existed := m.present[k]
	if existed {
		if m.delay {
			m.pending[k] = true
		} else {
			m.present[k] = false
		}
	}
	return existed
}

func (m *keyModel) request(k int) bool {
	existed := m.present[k]
	m.present[k] = true
	m.pending[k] = false
	return existed
}

func (m *keyModel) advance() {
	for k := 1; k <= 2; k++ {
		if m.pending[k] {
			m.present[k], m.pending[k] = false, false
		}
	}
}

func keyedCheck(k *keyed.Keyed[int, int], m *keyModel) {
	n := 0
	for key := 1; key <= 2; key++ {
		d, ok := k.GetKey(key)
		vrt.Assert(ok == m.present[key], "getkey-differs-from-model")
		if ok {
			vrt.Assert(d == key*10, "getkey-data")
			n++
		}
	}
	vrt.Assert(len(k.GetKeys()) == n, "getkeys-count-differs-from-model")
}

// keyedOp applies one symbolic operation to the container and the model and checks the
// return values. op: 0 SetKey(1) 1 SetKey(2) 2 RemoveKey(1) 3 RemoveKey(2) 4..7 SyncKeys of
// the subset {}, {1}, {2}, {1,2}.
func keyedOp(k *keyed.Keyed[int, int], m *keyModel, op int) {
	switch op {
	case 0, 1:
		key := op + 1
		d, existed := k.SetKey(key, false)
		vrt.Assert(existed == m.request(key), "setkey-existed")
		vrt.Assert(d == key*10, "setkey-data")
	case 2, 3:
		key := op - 1
		vrt.Assert(k.RemoveKey(key) == m.remove(key), "removekey-existed")
	default:
		want1, want2 := op == 5 || op == 7, op == 6 || op == 7
		var keys []int
		if want1 {
			keys = append(keys, 1)
		}
		if want2 {
			keys = append(keys, 2, 2) // a duplicate inside the call is allowed
		}
		added, removed := k.SyncKeys(keys, false)
		nAdd, nRem := 0, 0
		for key := 1; key <= 2; key++ {
			want := (key == 1 && want1) || (key == 2 && want2)
			if want {
				if !m.request(key) {
					nAdd++
					found := false
					for _, a := range added {
						if a == key {
							found = true
						}
					}
					vrt.Assert(found, "synckeys-added-missing")
				}
			} else if m.remove(key) {
				nRem++
				found := false
				for _, r := range removed {
					if r == key {
						found = true
					}
				}
				vrt.Assert(found, "synckeys-removed-missing")
			}
		}
		vrt.Assert(len(added) == nAdd && len(removed) == nRem, "synckeys-counts")
	}
}

// H_C06_History: from an initial key set (empty, {1} or {1,2}: symbolic) a symbolic history of
// three key-set operations over keys {1,2} (SetKey,
// RemoveKey, SyncKeys of any subset, with a duplicate) on a container without context, with or
// without a release delay (symbolic); every return value and GetKey/GetKeys agree with the
// reference model after every operation; then the delay expires and the key set is compared
// again: keys whose removal was pending are gone, keys requested again before that are kept.
func H_C06_History() {
	delay := vrt.Bool("delay")
	ctor := func(key int) (keyed.Routine, int) { return untilCancelled, key * 10 }
	var k *keyed.Keyed[int, int]
	if delay {
		k = keyed.NewKeyed[int, int](ctor, keyed.WithReleaseDelay[int, int](time.Second))
	} else {
		k = keyed.NewKeyed[int, int](ctor)
	}
	m := &keyModel{delay: delay}
	// initial key set: 0 empty, 1 {1}, 2 {1,2}
	init := vrt.Int("init", 0, 2)
	if init >= 1 {
		k.SetKey(1, false)
		m.request(1)
	}
	if init >= 2 {
		k.SetKey(2, false)
		m.request(2)
	}
	ops := [3]int{vrt.Int("op0", 0, 7), vrt.Int("op1", 0, 7), vrt.Int("op2", 0, 7)}
	for i := 0; i < 3; i++ {
		keyedOp(k, m, ops[i])
		keyedCheck(k, m)
	}
	vrt.Advance()
	m.advance()
	vrt.AtQuiescence(func() {
		keyedCheck(k, m)
	})
}

// H_C06_History2: as H_C06_History with two operations (all 64 histories are case split in the
// quick tier when a release delay is configured).
func H_C06_History2() {
	delay := vrt.Bool("delay")
	ctor := func(key int) (keyed.Routine, int) { return untilCancelled, key * 10 }
	var k *keyed.Keyed[int, int]
	if delay {
		k = keyed.NewKeyed[int, int](ctor, keyed.WithReleaseDelay[int, int](time.Second))
	} else {
		k = keyed.NewKeyed[int, int](ctor)
	}
	m := &keyModel{delay: delay}
	init := vrt.Int("init", 0, 2)
	if init >= 1 {
		k.SetKey(1, false)
		m.request(1)
	}
	if init >= 2 {
		k.SetKey(2, false)
		m.request(2)
	}
	ops := [2]int{vrt.Int("op0", 0, 7), vrt.Int("op1", 0, 7)}
	for i := 0; i < 2; i++ {
		keyedOp(k, m, ops[i])
		keyedCheck(k, m)
	}
	vrt.Advance()
	m.advance()
	vrt.AtQuiescence(func() {
		keyedCheck(k, m)
	})
}

// H_C06_RefCount: KeyedRefCount over one key: two references added, then a symbolic sequence of
// three operations out of {release ref A, release ref B, RemoveKey, AddKeyRef, release the
// latest added reference}; the key is
// present exactly while an unreleased reference exists (RemoveKey drops all of them) and
// releasing a reference twice counts once.
func H_C06_RefCount() {
	ctor := func(key int) (keyed.Routine, int) { return untilCancelled, key * 10 }
	k := keyed.NewKeyedRefCount[int, int](ctor)
	refA, d, existed := k.AddKeyRef(1)
	vrt.Assert(!existed && d == 10, "addkeyref-first")
	refB, _, existed := k.AddKeyRef(1)
	vrt.Assert(existed, "addkeyref-second")
	aLive, bLive, extra := true, true, 0
	// the most recently added extra reference can be released too (operation 4), also twice
	var lastExtra *keyed.KeyedRef[int, int]
	lastLive := false
	ops := [3]int{vrt.Int("op0", 0, 4), vrt.Int("op1", 0, 4), vrt.Int("op2", 0, 4)}
	for i := 0; i < 3; i++ {
		switch ops[i] {
		case 0:
			refA.Release()
			aLive = false
		case 1:
			refB.Release()
			bLive = false
		case 2:
			present := aLive || bLive || extra > 0
			vrt.Assert(k.RemoveKey(1) == present, "refcount-removekey-existed")
			aLive, bLive, extra, lastLive = false, false, 0, false
		case 3:
			present := aLive || bLive || extra > 0
			ref, _, ex := k.AddKeyRef(1)
			vrt.Assert(ex == present, "refcount-addkeyref-existed")
			extra++
			lastExtra, lastLive = ref, true
		default:
			if lastExtra != nil {
				lastExtra.Release()
				if lastLive {
					extra--
					lastLive = false
				}
			}
		}
		_, ok := k.GetKey(1)
		vrt.Assert(ok == (aLive || bLive || extra > 0), "refcount-presence")
	}
}
