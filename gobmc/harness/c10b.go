package harness

import (
	"context"

	"github.com/aperturerobotics/util/refcount"
	"gobmc/vrt"
)

// H_C10_WaitWithReleased: the value is already resolved when WaitWithReleased adds its
// reference; an invalidation right afterwards must lead to exactly one released() call.
func H_C10_WaitWithReleased() {
	resolver := func(ctx context.Context, released func()) (int, func(), error) { return 1, nil, nil }
	ctxA, _ := context.WithCancel(context.Background())
	ctxB, _ := context.WithCancel(context.Background())
	rc := refcount.NewRefCount[int](ctxA, true, nil, nil, resolver)
	rc.AddRef(func(resolved bool, val int, err error) {})
	var releasedCalls int
	vrt.AtQuiescence(func() {
		vrt.Go("waiter", func() {
			_, ref := rc.WaitWithReleased(context.Background(), func() {
				vrt.Atomic(func() { releasedCalls++ })
			})
			_ = ref
		})
		vrt.Go("invalidator", func() { rc.SetContext(ctxB) })
	})
}
