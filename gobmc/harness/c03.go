package harness

import (
	"context"
	"errors"

	"github.com/aperturerobotics/util/broadcast"
	"gobmc/vrt"
)

// H_C03_Wait: one waiter (Wait until x >= 2, context may be cancelled at any moment) and two
// setters that increment x and broadcast, one through HoldLock and one through
// HoldLockMaybeAsync. Wait returns nil only after its predicate returned true; Canceled only
// if the context was cancelled; the waiter never stays blocked while x >= 2 (stuck class).
func H_C03_Wait() {
	var b broadcast.Broadcast
	x := 0
	vrt.Go("waiter", func() {
		ctx, cancel := context.WithCancel(context.Background())
		cancelled := vrt.Bool("cancel")
		if cancelled {
			vrt.CancelAnytime(cancel)
		}
		sawTrue := false
		err := b.Wait(ctx, func(broadcast func(), getWaitCh func() <-chan struct{}) (bool, error) {
			if x >= 2 {
				sawTrue = true
				return true, nil
			}
			return false, nil
		})
		if err == nil {
			vrt.Cover("wait-returned-nil")
			vrt.Assert(sawTrue, "wait-nil-only-after-predicate-true")
		} else {
			vrt.Cover("wait-returned-canceled")
			vrt.Assert(err == context.Canceled && cancelled, "wait-canceled-only-if-cancelled")
		}
	})
	vrt.Go("setter1", func() {
		b.HoldLock(func(broadcast func(), getWaitCh func() <-chan struct{}) {
			x++
			broadcast()
		})
	})
	vrt.Go("setter2", func() {
		b.HoldLockMaybeAsync(func(broadcast func(), getWaitCh func() <-chan struct{}) {
			x++
			broadcast()
		})
	})
}

// H_C03_WaitErr: the predicate fails with its own error when x reaches 1; Wait returns that
// error unchanged. A second waiter waits for x >= 1 through TryHoldLock-driven updates.
func H_C03_WaitErr() {
	var b broadcast.Broadcast
	x := 0
	myErr := errors.New("predicate error")
	vrt.Go("waiter-err", func() {
		err := b.Wait(context.Background(), func(broadcast func(), getWaitCh func() <-chan struct{}) (bool, error) {
			if x >= 1 {
				return false, myErr
			}
			return false, nil
		})
		vrt.Assert(err == myErr, "wait-returns-predicate-error")
	})
	vrt.Go("waiter-ok", func() {
		err := b.Wait(context.Background(), func(broadcast func(), getWaitCh func() <-chan struct{}) (bool, error) {
			return x >= 1, nil
		})
		vrt.Assert(err == nil, "wait-ok")
	})
	vrt.Go("setter", func() {
		// TryHoldLock may fail when a waiter holds the lock: retry with HoldLock
		ok := b.TryHoldLock(func(broadcast func(), getWaitCh func() <-chan struct{}) {
			x++
			broadcast()
		})
		if !ok {
			vrt.Cover("tryholdlock-failed")
			b.HoldLock(func(broadcast func(), getWaitCh func() <-chan struct{}) {
				x++
				broadcast()
			})
		}
	})
}

// H_C03_Generations: a channel obtained in one critical section is closed by the first
// broadcast performed in a later critical section; a channel obtained after that broadcast is
// still open until the next one. A concurrent third party also takes wait channels and
// broadcasts (symbolic), so the sections interleave.
func H_C03_Generations() {
	var b broadcast.Broadcast
	isClosed := func(ch <-chan struct{}) bool {
		select {
		case <-ch:
			return true
		default:
			return false
		}
	}
	otherBroadcasts := 0
	vrt.Go("other", func() {
		b.HoldLock(func(broadcast func(), getWaitCh func() <-chan struct{}) {
			_ = getWaitCh()
			if vrt.Bool("other-broadcasts") {
				otherBroadcasts++
				broadcast()
			}
		})
	})
	vrt.Go("main", func() {
		var ch1, ch2, ch2b <-chan struct{}
		var seen0, seen1 int
		b.HoldLock(func(broadcast func(), getWaitCh func() <-chan struct{}) {
			ch1 = getWaitCh()
			seen0 = otherBroadcasts
			vrt.Assert(!isClosed(ch1), "fresh-channel-open")
		})
		b.HoldLock(func(broadcast func(), getWaitCh func() <-chan struct{}) {
			broadcast()
			vrt.Assert(isClosed(ch1), "broadcast-closes-earlier-channel")
			ch2 = getWaitCh()
			ch2b = getWaitCh()
			seen1 = otherBroadcasts
			vrt.Assert(!isClosed(ch2), "channel-after-broadcast-open")
			vrt.Assert(ch2 == ch2b, "one-generation-one-channel")
		})
		_ = seen0
		b.HoldLock(func(broadcast func(), getWaitCh func() <-chan struct{}) {
			// ch2 is closed exactly if a broadcast ran since it was obtained
			vrt.Assert(isClosed(ch2) == (otherBroadcasts != seen1), "channel-open-until-next-broadcast")
		})
	})
}

// H_C03_WaitErrCancel: the predicate's error is returned unchanged also when the waiter's
// context is cancelled at any moment, in particular while the predicate is being evaluated
// or between that evaluation and Wait's return: once the predicate has returned its error,
// Wait returns exactly that error; otherwise it returns Canceled only if cancelled.
func H_C03_WaitErrCancel() {
	var b broadcast.Broadcast
	x := 0
	myErr := errors.New("predicate error")
	vrt.Go("waiter-err", func() {
		ctx, cancel := context.WithCancel(context.Background())
		cancelled := vrt.Bool("cancel")
		if cancelled {
			vrt.CancelAnytime(cancel)
		}
		predFailed := false
		err := b.Wait(ctx, func(broadcast func(), getWaitCh func() <-chan struct{}) (bool, error) {
			if x >= 1 {
				predFailed = true
				return false, myErr
			}
			return false, nil
		})
		if predFailed {
			vrt.Cover("predicate-failed")
			vrt.Assert(err == myErr, "wait-returns-predicate-error-despite-cancel")
		} else {
			vrt.Cover("cancelled-before-predicate-failed")
			vrt.Assert(err == context.Canceled && cancelled, "wait-canceled-only-if-cancelled")
		}
	})
	vrt.Go("setter", func() {
		b.HoldLock(func(broadcast func(), getWaitCh func() <-chan struct{}) {
			x++
			broadcast()
		})
	})
}
