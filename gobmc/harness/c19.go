package harness

import (
	"github.com/aperturerobotics/util/padding"
	"gobmc/vrt"
)

// H_C19_PadRoundTrip: for every x (len <= 72, arbitrary spare capacity; length and capacity are case split, bytes symbolic) PadInPlace(x) has a
// length that is a positive multiple of 32, starts with x, and unpads to exactly x.
func H_C19_PadRoundTrip() {
	x := vrt.Bytes("x", 72, 112)
	n := len(x)
	// keep a private copy: PadInPlace may write into x's spare capacity
	orig := make([]byte, 72)
	for i := 0; i < n; i++ {
		orig[i] = x[i]
	}
	p := padding.PadInPlace(x)
	vrt.Assert(len(p) > 0 && len(p)%32 == 0, "pad-length")
	vrt.Assert(len(p) >= n, "pad-not-shorter")
	for i := 0; i < n; i++ {
		vrt.Assert(p[i] == orig[i], "pad-prefix")
	}
	u, err := padding.UnpadInPlace(p)
	vrt.Assert(err == nil, "unpad-ok")
	if err == nil {
		vrt.Assert(len(u) == n, "unpad-length")
		for i := 0; i < len(u) && i < n; i++ {
			vrt.Assert(u[i] == orig[i], "unpad-content")
		}
	}
}

// H_C19_UnpadAny: UnpadInPlace never panics or over-reads on any input.
func H_C19_UnpadAny() {
	x := vrt.Bytes("x", 72, 72)
	u, err := padding.UnpadInPlace(x)
	if err == nil {
		vrt.Assert(len(u) <= len(x), "unpad-within")
	}
}
