package harness

import (
	"io"

	"github.com/aperturerobotics/util/prng"
	"gobmc/vrt"
)

// symSource is a rand.Source whose k-th Uint64 is the k-th element of a fixed symbolic table:
// two sources over the same table model "built from equal seed data".
type symSource struct {
	tab *[4]uint64
	k   int
}

func (s *symSource) Uint64() uint64 {
	v := s.tab[s.k]
	s.k++
	return v
}

func readChunks(r io.Reader, out []byte, chunks []int) {
	off := 0
	for _, c := range chunks {
		if c == 0 {
			continue
		}
		n, err := r.Read(out[off : off+c])
		vrt.Assert(err == nil && n == c, "prng-read-full")
		off += c
	}
}

// H_C19_PrngChunks: two readers over the same source values; one reads 20 bytes in the chunks
// (c0, c1, c2, rest), the other in one call: the streams are identical byte for byte, and equal
// to the little-endian bytes of the source values. The chunk sizes are case split (control
// flow concrete), the source values are symbolic.
func H_C19_PrngChunks() {
	var tab [4]uint64
	tab[0] = uint64(vrt.Int("u0", -9223372036854775808, 9223372036854775807))
	tab[1] = uint64(vrt.Int("u1", -9223372036854775808, 9223372036854775807))
	tab[2] = uint64(vrt.Int("u2", -9223372036854775808, 9223372036854775807))
	tab[3] = uint64(vrt.Int("u3", -9223372036854775808, 9223372036854775807))
	c0 := vrt.Int("c0", 0, 20)
	c1 := vrt.Int("c1", 0, 20)
	c2 := vrt.Int("c2", 0, 20)
	vrt.Assume(c0+c1+c2 <= 20)
	a := prng.SourceToReader(&symSource{tab: &tab})
	b := prng.SourceToReader(&symSource{tab: &tab})
	var outA, outB [20]byte
	readChunks(a, outA[:], []int{c0, c1, c2, 20 - c0 - c1 - c2})
	readChunks(b, outB[:], []int{20})
	for i := 0; i < 20; i++ {
		vrt.Assert(outA[i] == outB[i], "prng-chunking-independent")
		vrt.Assert(outB[i] == byte(tab[i/8]>>(uint(i%8)*8)), "prng-stream-is-source-bytes")
	}
}
