package harness

import (
	"context"
	"errors"

	"github.com/aperturerobotics/util/refcount"
	"gobmc/vrt"
)

// H_C10_AccessInvalidate: the Access callback's first invocation invalidates the value it was
// given (it calls the resolver's released() callback) and returns an error at once. Access must
// not return that invocation's result: it waits for the replacement value, invokes the
// callback again with it and returns that invocation's result. Every value passed to the
// callback is the value current when Access looked.
func H_C10_AccessInvalidate() {
	errStale := errors.New("result of the invalidated invocation")
	var n int
	var lastRel func()
	resolver := func(ctx context.Context, released func()) (int, func(), error) {
		var v int
		vrt.Atomic(func() {
			n++
			v = n
			lastRel = released
		})
		return v, nil, nil
	}
	rc := refcount.NewRefCount[int](context.Background(), false, nil, nil, resolver)
	calls := 0
	var vals [4]int
	err := rc.Access(context.Background(), func(ctx context.Context, val int) error {
		calls++
		if calls <= 4 {
			vals[calls-1] = val
		}
		if calls == 1 {
			var f func()
			vrt.Atomic(func() { f = lastRel })
			f()
			return errStale
		}
		return nil
	})
	vrt.Assert(err == nil, "access-returned-result-of-invalidated-invocation")
	vrt.Assert(calls == 2, "access-callback-not-reinvoked-once")
	vrt.Assert(vals[0] == 1 && vals[1] == 2, "access-callback-values")
}
