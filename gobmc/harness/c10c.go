package harness

import (
	"context"
	"errors"

	"github.com/aperturerobotics/util/refcount"
	"gobmc/vrt"
)

// H_C10_AccessInvalidate: the Access callback's first invocation invalidates the value it was
// given (it calls the resolver's released() callback), waits until the invalidation has been
// delivered (the resolver is called again) and returns an error. Access must
// not return that invocation's result: it waits for the replacement value, invokes the
// callback again with it and returns that invocation's result. Every value passed to the
// callback is the value current when Access looked.
func H_C10_AccessInvalidate() {
	errStale := errors.New("result of the invalidated invocation")
	var n int
	var lastRel func()
	second := make(chan struct{})
	resolver := func(ctx context.Context, released func()) (int, func(), error) {
		var v int
		vrt.Atomic(func() {
			n++
			v = n
			lastRel = released
		})
		if v == 2 {
			close(second)
		}
		return v, nil, nil
	}
	rc := refcount.NewRefCount[int](context.Background(), false, nil, nil, resolver)
	calls := 0
	var vals [4]int
	err := rc.Access(context.Background(), func(ctx context.Context, val int) error {
		calls++
		if calls <= 4 {
			vals[calls-1] = val
		}
		if calls == 1 {
			var f func()
			vrt.Atomic(func() { f = lastRel })
			f()
			// released() may be processed asynchronously: the invalidation has certainly been
			// delivered once the resolver has been called again
			<-second
			return errStale
		}
		return nil
	})
	vrt.Assert(err == nil, "access-returned-result-of-invalidated-invocation")
	vrt.Assert(calls == 2, "access-callback-not-reinvoked-once")
	vrt.Assert(vals[0] == 1 && vals[1] == 2, "access-callback-values")
}

// H_C10_AccessPrompt: as H_C10_AccessInvalidate, but the replacement value is not resolved
// before the first invocation has seen its context cancelled: the invalidation alone (not the
// arrival of a replacement) must cancel the callback's context, otherwise the callback, the
// resolver and Access wait for each other for ever (stuck class).
func H_C10_AccessPrompt() {
	errStale := errors.New("result of the invalidated invocation")
	var n int
	var lastRel func()
	cancelSeen := make(chan struct{})
	resolver := func(ctx context.Context, released func()) (int, func(), error) {
		var v int
		vrt.Atomic(func() {
			n++
			v = n
			lastRel = released
		})
		if v == 2 {
			<-cancelSeen
		}
		return v, nil, nil
	}
	rc := refcount.NewRefCount[int](context.Background(), false, nil, nil, resolver)
	calls := 0
	var vals [4]int
	err := rc.Access(context.Background(), func(ctx context.Context, val int) error {
		calls++
		if calls <= 4 {
			vals[calls-1] = val
		}
		if calls == 1 {
			var f func()
			vrt.Atomic(func() { f = lastRel })
			f()
			<-ctx.Done() // cancelled promptly: no further event is needed
			close(cancelSeen)
			return errStale
		}
		return nil
	})
	vrt.Assert(err == nil, "access-returned-result-of-invalidated-invocation")
	vrt.Assert(calls == 2, "access-callback-not-reinvoked-once")
	vrt.Assert(vals[0] == 1 && vals[1] == 2, "access-callback-values")
}
