package harness

import (
	"context"
	"errors"

	"github.com/aperturerobotics/util/refcount"
	"gobmc/vrt"
)

// H_C10_AccessInvalidate: the Access callback's first invocation invalidates the value it was
// given (it calls the resolver's released() callback), waits until the invalidation has been
// delivered (the resolver is called again) and returns an error. Access must
// not return that invocation's result: it waits for the replacement value, invokes the
// callback again with it and returns that invocation's result. Every value passed to the
// callback is the value current when Access looked.
func H_C10_AccessInvalidate() {
	errStale := errors.New("result of the invalidated invocation")
	var n int
	var lastRel func()
	second := make(chan struct{})
	resolver := func(ctx context.Context, released func()) (int, func(), error) {
		var v int
		vrt.Atomic(func() {
			n++
			v = n
			lastRel = released
		})
		if v == 2 {
			close(second)
		}
		return v, nil, nil
	}
	rc := refcount.NewRefCount[int](context.Background(), false, nil, nil, resolver)
	calls := 0
	var vals [4]int
	err := rc.Access(context.Background(), func(ctx context.Context, val int) error {
		calls++
		if calls <= 4 {
			vals[calls-1] = val
		}
		if calls == 1 {
			var f func()
			vrt.Atomic(func() { f = lastRel })
			f()
			// released() may be processed asynchronously: the invalidation has certainly been
			// delivered once the resolver has been called again
			<-second
			return errStale
		}
		return nil
	})
	vrt.Assert(err == nil, "access-returned-result-of-invalidated-invocation")
	vrt.Assert(calls == 2, "access-callback-not-reinvoked-once")
	vrt.Assert(vals[0] == 1 && vals[1] == 2, "access-callback-values")
}

// H_C10_AccessSameValue (variant of H_C10_AccessInvalidate in which the resolver produces an
// EQUAL value again, so "the value looks the same" cannot stand in for "nothing changed"): the Access callback's first invocation invalidates the value it was
// given (it calls the resolver's released() callback), waits until the invalidation has been
// delivered (the resolver is called again) and returns an error. Access must
// not return that invocation's result: it waits for the replacement value, invokes the
// callback again with it and returns that invocation's result. Every value passed to the
// callback is the value current when Access looked.
func H_C10_AccessSameValue() {
	errStale := errors.New("result of the invalidated invocation")
	var n int
	var lastRel func()
	second := make(chan struct{})
	resolver := func(ctx context.Context, released func()) (int, func(), error) {
		var v int
		vrt.Atomic(func() {
			n++
			v = n
			lastRel = released
		})
		if v == 2 {
			close(second)
		}
		return 7, nil, nil
	}
	rc := refcount.NewRefCount[int](context.Background(), false, nil, nil, resolver)
	calls := 0
	var vals [4]int
	err := rc.Access(context.Background(), func(ctx context.Context, val int) error {
		calls++
		if calls <= 4 {
			vals[calls-1] = val
		}
		if calls == 1 {
			var f func()
			vrt.Atomic(func() { f = lastRel })
			f()
			// released() may be processed asynchronously: the invalidation has certainly been
			// delivered once the resolver has been called again
			<-second
			return errStale
		}
		return nil
	})
	vrt.Assert(err == nil, "access-returned-result-of-invalidated-invocation")
	vrt.Assert(calls == 2, "access-callback-not-reinvoked-once")
	vrt.Assert(vals[0] == 7 && vals[1] == 7, "access-callback-values")
}

// H_C10_AccessPrompt: as H_C10_AccessInvalidate, but the replacement value is not resolved
// before the first invocation has seen its context cancelled: the invalidation alone (not the
// arrival of a replacement) must cancel the callback's context, otherwise the callback, the
// resolver and Access wait for each other for ever (stuck class).
func H_C10_AccessPrompt() {
	errStale := errors.New("result of the invalidated invocation")
	var n int
	var lastRel func()
	cancelSeen := make(chan struct{})
	resolver := func(ctx context.Context, released func()) (int, func(), error) {
		var v int
		vrt.Atomic(func() {
			n++
			v = n
			lastRel = released
		})
		if v == 2 {
			<-cancelSeen
		}
		return v, nil, nil
	}
	rc := refcount.NewRefCount[int](context.Background(), false, nil, nil, resolver)
	calls := 0
	var vals [4]int
	err := rc.Access(context.Background(), func(ctx context.Context, val int) error {
		calls++
		if calls <= 4 {
			vals[calls-1] = val
		}
		if calls == 1 {
			var f func()
			vrt.Atomic(func() { f = lastRel })
			f()
			<-ctx.Done() // cancelled promptly: no further event is needed
			close(cancelSeen)
			return errStale
		}
		return nil
	})
	vrt.Assert(err == nil, "access-returned-result-of-invalidated-invocation")
	vrt.Assert(calls == 2, "access-callback-not-reinvoked-once")
	vrt.Assert(vals[0] == 1 && vals[1] == 2, "access-callback-values")
}

// H_C10_AccessSimple: the part of Access's contract that does not need an invalidation: the
// callback is invoked once with the resolved value and Access returns exactly the callback's
// result (nil or its error, symbolic); a resolver error is returned without invoking the
// callback; afterwards Access's reference is gone (the value is released exactly once).
func H_C10_AccessSimple() {
	errResolve := errors.New("resolver error")
	errCb := errors.New("callback error")
	resolverFails := vrt.Bool("resolver-fails")
	cbFails := vrt.Bool("cb-fails")
	released, resolves := 0, 0
	resolver := func(ctx context.Context, rel func()) (int, func(), error) {
		vrt.Atomic(func() { resolves++ })
		if resolverFails {
			return 0, nil, errResolve
		}
		return 7, func() { vrt.Atomic(func() { released++ }) }, nil
	}
	rc := refcount.NewRefCount[int](context.Background(), false, nil, nil, resolver)
	calls, got := 0, 0
	err := rc.Access(context.Background(), func(ctx context.Context, val int) error {
		calls++
		got = val
		vrt.Assert(ctx.Err() == nil, "access-callback-context-cancelled-without-invalidation")
		if cbFails {
			return errCb
		}
		return nil
	})
	if resolverFails {
		vrt.Assert(err == errResolve, "access-resolver-error-not-returned")
		vrt.Assert(calls == 0, "access-callback-invoked-after-resolver-error")
	} else {
		vrt.Assert(calls == 1 && got == 7, "access-callback-once-with-current-value")
		if cbFails {
			vrt.Assert(err == errCb, "access-returns-callback-result")
		} else {
			vrt.Assert(err == nil, "access-returns-callback-result")
		}
	}
	vrt.AtQuiescence(func() {
		vrt.Atomic(func() {
			vrt.Assert(resolves == 1, "access-resolved-more-than-once")
			if !resolverFails {
				vrt.Assert(released == 1, "access-reference-not-released")
			}
		})
		vrt.Cover("access-simple-end")
	})
}
