package harness

import (
	"os"
	"strings"
	"testing"

	"gobmc/vsched"
)

var registry = map[string]func(){
	"H_C04_Restart2":         H_C04_Restart2,
	"H_C09_Overlap":          H_C09_Overlap,
	"H_C09_NilCb":            H_C09_NilCb,
	"H_C02_LongReader":       H_C02_LongReader,
	"H_C17_ErrNotLost":       H_C17_ErrNotLost,
	"H_C10_WaitWithReleased": H_C10_WaitWithReleased,
	"H_C05_TwoDrivers":       H_C05_TwoDrivers,
}

// TestReplay replays the trace named by VTRACE against the natively compiled code.
func TestReplay(t *testing.T) {
	path := os.Getenv("VTRACE")
	if path == "" {
		t.Skip("VTRACE not set")
	}
	h := os.Getenv("VHARNESS")
	res := vsched.Run(path, registry[h])
	for _, l := range vsched.Log {
		t.Log(l)
	}
	t.Logf("completed=%v diverged=%q failures=%v blocked=%v", res.Completed, res.Diverged, res.Failures, res.Blocked)
	if strings.Contains(os.Getenv("VEXPECT"), "stuck") && res.Completed && len(res.Blocked) > 0 {
		t.Logf("REPRODUCED: threads %v are still blocked after every other thread finished or parked", res.Blocked)
		return
	}
	if len(res.Failures) > 0 {
		t.Logf("REPRODUCED: %s", strings.Join(res.Failures, "; "))
		return
	}
	t.Fatalf("NOT REPRODUCED")
}
