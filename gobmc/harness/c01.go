package harness

import (
	"context"

	"github.com/aperturerobotics/util/csync"
	"gobmc/vrt"
)

// ---- C01: csync locks, safety (occupancy counters strictly inside the held interval) ----

type occ struct{ n, readers, writers int }

func (o *occ) enterMutex() {
	vrt.Atomic(func() {
		o.n++
		vrt.Assert(o.n == 1, "mutex-excl")
	})
	vrt.Atomic(func() { o.n-- })
}

func (o *occ) enterRW(write bool) {
	if write {
		vrt.Atomic(func() {
			o.writers++
			vrt.Assert(o.writers == 1 && o.readers == 0, "rw-excl-writer")
		})
		vrt.Atomic(func() { o.writers-- })
	} else {
		vrt.Atomic(func() {
			o.readers++
			vrt.Assert(o.writers == 0, "rw-excl-reader")
		})
		vrt.Atomic(func() { o.readers-- })
	}
}

// H_C01_Mutex3: three role-specialised actors on one csync.Mutex: Lock whose context may be
// cancelled at any moment, TryLock, and Lock with a double release. At most one of them is ever
// inside; the double release frees nobody else's hold (a third actor would get in); under the
// specification every actor finishes, so any actor still blocked at quiescence is a lost wake-up.
func H_C01_Mutex3() {
	var m csync.Mutex
	var o occ
	vrt.Go("lock-cancel", func() {
		ctx, cancel := context.WithCancel(context.Background())
		vrt.CancelAnytime(cancel)
		rel, err := m.Lock(ctx)
		if err != nil {
			vrt.Cover("lock-returned-cancelled")
			return
		}
		vrt.Cover("lock-granted")
		o.enterMutex()
		rel()
	})
	vrt.Go("try", func() {
		rel, ok := m.TryLock()
		if !ok {
			vrt.Cover("trylock-failed")
			return
		}
		o.enterMutex()
		rel()
		rel()
	})
	vrt.Go("lock-double", func() {
		rel, err := m.Lock(context.Background())
		if err != nil {
			return
		}
		o.enterMutex()
		rel()
		rel()
	})
}

// H_C01_MutexLocker: the sync.Locker adapter against a plain Lock.
func H_C01_MutexLocker() {
	var m csync.Mutex
	var o occ
	vrt.Go("locker", func() {
		l := m.Locker()
		l.Lock()
		o.enterMutex()
		l.Unlock()
	})
	vrt.Go("lock", func() {
		rel, err := m.Lock(context.Background())
		if err != nil {
			return
		}
		o.enterMutex()
		rel()
	})
	vrt.Go("try", func() {
		rel, ok := m.TryLock()
		if ok {
			o.enterMutex()
			rel()
		}
	})
}

// H_C01_RW_2R1W: reader with cancellable Lock, reader with TryLock, writer with double release.
func H_C01_RW_2R1W() {
	var m csync.RWMutex
	var o occ
	vrt.Go("r-lock-cancel", func() {
		ctx, cancel := context.WithCancel(context.Background())
		vrt.CancelAnytime(cancel)
		rel, err := m.Lock(ctx, false)
		if err != nil {
			vrt.Cover("rlock-returned-cancelled")
			return
		}
		o.enterRW(false)
		rel()
	})
	vrt.Go("r-try", func() {
		rel, ok := m.TryLock(false)
		if !ok {
			return
		}
		o.enterRW(false)
		rel()
		rel()
	})
	vrt.Go("w-lock-double", func() {
		rel, err := m.Lock(context.Background(), true)
		if err != nil {
			return
		}
		o.enterRW(true)
		rel()
		rel()
	})
}

// H_C01_RW_1R2W: reader with double release, writer with cancellable Lock, writer with TryLock.
func H_C01_RW_1R2W() {
	var m csync.RWMutex
	var o occ
	vrt.Go("r-lock-double", func() {
		rel, err := m.Lock(context.Background(), false)
		if err != nil {
			return
		}
		o.enterRW(false)
		rel()
		rel()
	})
	vrt.Go("w-lock-cancel", func() {
		ctx, cancel := context.WithCancel(context.Background())
		vrt.CancelAnytime(cancel)
		rel, err := m.Lock(ctx, true)
		if err != nil {
			vrt.Cover("wlock-returned-cancelled")
			return
		}
		vrt.Cover("wlock-granted")
		o.enterRW(true)
		rel()
	})
	vrt.Go("w-try", func() {
		rel, ok := m.TryLock(true)
		if !ok {
			return
		}
		o.enterRW(true)
		rel()
		rel()
	})
}

// H_C01_RWLocker: Locker (write) and RLocker (read) adapters against a reader.
func H_C01_RWLocker() {
	var m csync.RWMutex
	var o occ
	vrt.Go("wlocker", func() {
		l := m.Locker()
		l.Lock()
		o.enterRW(true)
		l.Unlock()
	})
	vrt.Go("rlocker", func() {
		l := m.RLocker()
		l.Lock()
		o.enterRW(false)
		l.Unlock()
	})
	vrt.Go("r-lock", func() {
		rel, err := m.Lock(context.Background(), false)
		if err != nil {
			return
		}
		o.enterRW(false)
		rel()
	})
}

// actorSym: an actor whose API, mode, cancellation and double release are all symbolic
// (thorough tier).
func actorSym(m *csync.RWMutex, o *occ) {
	write := vrt.Bool("write")
	var rel func()
	if vrt.Bool("try") {
		r, ok := m.TryLock(write)
		if !ok {
			return
		}
		rel = r
	} else {
		ctx, cancel := context.WithCancel(context.Background())
		if vrt.Bool("cancels") {
			vrt.CancelAnytime(cancel)
		}
		r, err := m.Lock(ctx, write)
		if err != nil {
			return
		}
		rel = r
	}
	o.enterRW(write)
	rel()
	if vrt.Bool("double") {
		rel()
	}
}

// H_C01_RWSym2 / H_C01_RWSym3: two / three fully symbolic actors.
func H_C01_RWSym2() {
	var m csync.RWMutex
	var o occ
	vrt.Go("a0", func() { actorSym(&m, &o) })
	vrt.Go("a1", func() { actorSym(&m, &o) })
}

func H_C01_RWSym3() {
	var m csync.RWMutex
	var o occ
	vrt.Go("a0", func() { actorSym(&m, &o) })
	vrt.Go("a1", func() { actorSym(&m, &o) })
	vrt.Go("a2", func() { actorSym(&m, &o) })
}

// ---- C02: liveness and "no trace" ----

// H_C02_LongReader: R1 holds a read lock for good; W waits for the write lock and gives up
// (cancelled); R2, a reader that may have queued behind W, must still be admitted: at
// quiescence R2 must not be blocked.
func H_C02_LongReader() {
	var m csync.RWMutex
	vrt.Go("r1", func() {
		_, err := m.Lock(context.Background(), false)
		if err != nil {
			return
		}
		vrt.Park()
	})
	vrt.Go("w", func() {
		ctx, cancel := context.WithCancel(context.Background())
		vrt.CancelAnytime(cancel)
		rel, err := m.Lock(ctx, true)
		if err == nil {
			rel()
		}
	})
	vrt.Go("r2", func() {
		rel, err := m.Lock(context.Background(), false)
		if err == nil {
			vrt.Cover("late-reader-admitted")
			rel()
		}
	})
}

// H_C02_NoTrace: while the main thread holds a read lock, a writer and a reader call Lock with
// contexts that may be cancelled at any moment. When everything has returned and the main
// thread has released, the lock behaves as if those calls had never been made: TryLock(write)
// and then TryLock(read) succeed.
func H_C02_NoTrace() {
	var m csync.RWMutex
	rel1, err := m.Lock(context.Background(), false)
	vrt.Assert(err == nil, "first-reader-admitted")
	vrt.Go("w", func() {
		ctx, cancel := context.WithCancel(context.Background())
		vrt.CancelAnytime(cancel)
		rel, err := m.Lock(ctx, true)
		if err == nil {
			rel()
		} else {
			vrt.Cover("writer-gave-up")
		}
	})
	vrt.Go("r2", func() {
		ctx, cancel := context.WithCancel(context.Background())
		vrt.CancelAnytime(cancel)
		rel, err := m.Lock(ctx, false)
		if err == nil {
			rel()
		} else {
			vrt.Cover("reader-gave-up")
		}
	})
	vrt.AtQuiescence(func() {
		rel1()
		vrt.AtQuiescence(func() {
			r, ok := m.TryLock(true)
			vrt.Assert(ok, "no-trace-write")
			if ok {
				r()
			}
			r, ok = m.TryLock(false)
			vrt.Assert(ok, "no-trace-read")
			if ok {
				r()
			}
		})
	})
}

// H_C02_MutexNoTrace: the Mutex analogue: the main thread holds, one waiter may be cancelled,
// one waits for good; after the release everybody finishes and TryLock succeeds.
func H_C02_MutexNoTrace() {
	var m csync.Mutex
	rel1, err := m.Lock(context.Background())
	vrt.Assert(err == nil, "first-lock-granted")
	vrt.Go("b", func() {
		ctx, cancel := context.WithCancel(context.Background())
		vrt.CancelAnytime(cancel)
		rel, err := m.Lock(ctx)
		if err == nil {
			rel()
		} else {
			vrt.Cover("waiter-gave-up")
		}
	})
	vrt.Go("c", func() {
		rel, err := m.Lock(context.Background())
		if err == nil {
			rel()
		}
	})
	vrt.AtQuiescence(func() {
		rel1()
		vrt.AtQuiescence(func() {
			r, ok := m.TryLock()
			vrt.Assert(ok, "no-trace-mutex")
			if ok {
				r()
			}
		})
	})
}

// H_C02_WriterPreference: R1 holds a read lock for good, W waits for the write lock and may be
// cancelled by a canceller that raises a ghost flag BEFORE it cancels. R2 first observes
// TryLock(read) == false (possible only because a writer is registered: nobody can be
// writing), then calls Lock(read): if that is granted, the writer must have given up, hence
// the flag must be up (or the writer acquired the lock before R1 did, a second ghost flag).
func H_C02_WriterPreference() {
	var m csync.RWMutex
	var cancelCalled, wAcquired bool
	vrt.Go("r1", func() {
		_, err := m.Lock(context.Background(), false)
		if err != nil {
			return
		}
		vrt.Park()
	})
	vrt.Go("w", func() {
		ctx, cancel := context.WithCancel(context.Background())
		vrt.Go("canceller", func() {
			vrt.Atomic(func() { cancelCalled = true })
			cancel()
		})
		rel, err := m.Lock(ctx, true)
		if err == nil {
			vrt.Atomic(func() { wAcquired = true })
			rel()
		}
	})
	vrt.Go("r2", func() {
		r, ok := m.TryLock(false)
		if ok {
			r()
			return
		}
		vrt.Cover("reader-saw-waiting-writer")
		rel, err := m.Lock(context.Background(), false)
		if err == nil {
			var c bool
			vrt.Atomic(func() { c = cancelCalled || wAcquired })
			vrt.Assert(c, "reader-overtook-waiting-writer")
			rel()
		}
	})
}
