package harness

import (
	"context"

	"github.com/aperturerobotics/util/csync"
	"gobmc/vrt"
)

func actorMutex(m *csync.Mutex, occ *int) {
	ctx, cancel := context.WithCancel(context.Background())
	if vrt.Bool("cancels") {
		vrt.Go("canceller", cancel)
	}
	var rel func()
	if vrt.Bool("try") {
		r, ok := m.TryLock()
		if !ok {
			return
		}
		rel = r
	} else {
		r, err := m.Lock(ctx)
		if err != nil {
			return
		}
		rel = r
	}
	vrt.Atomic(func() {
		*occ++
		vrt.Assert(*occ == 1, "mutex-excl")
	})
	vrt.Atomic(func() { *occ-- })
	rel()
	if vrt.Bool("double") {
		rel()
	}
}

// H_C01_Mutex2: two actors on one csync.Mutex.
func H_C01_Mutex2() {
	var m csync.Mutex
	var occ int
	vrt.Go("a0", func() { actorMutex(&m, &occ) })
	vrt.Go("a1", func() { actorMutex(&m, &occ) })
}

// H_C01_Mutex3: three actors.
func H_C01_Mutex3() {
	var m csync.Mutex
	var occ int
	vrt.Go("a0", func() { actorMutex(&m, &occ) })
	vrt.Go("a1", func() { actorMutex(&m, &occ) })
	vrt.Go("a2", func() { actorMutex(&m, &occ) })
}

func actorRW(m *csync.RWMutex, readers, writers *int, write bool, cancels bool) {
	ctx, cancel := context.WithCancel(context.Background())
	if cancels {
		vrt.Go("canceller", cancel)
	}
	var rel func()
	if vrt.Bool("try") {
		r, ok := m.TryLock(write)
		if !ok {
			return
		}
		rel = r
	} else {
		r, err := m.Lock(ctx, write)
		if err != nil {
			return
		}
		rel = r
	}
	if write {
		vrt.Atomic(func() {
			*writers++
			vrt.Assert(*writers == 1 && *readers == 0, "rw-excl-w")
		})
		vrt.Atomic(func() { *writers-- })
	} else {
		vrt.Atomic(func() {
			*readers++
			vrt.Assert(*writers == 0, "rw-excl-r")
		})
		vrt.Atomic(func() { *readers-- })
	}
	rel()
	if vrt.Bool("double") {
		rel()
	}
}

// H_C01_RW3: three actors, symbolic modes.
func H_C01_RW3() {
	var m csync.RWMutex
	var readers, writers int
	for i := 0; i < 3; i++ {
		w := vrt.Bool("write")
		c := vrt.Bool("cancels")
		vrt.Go("a", func() { actorRW(&m, &readers, &writers, w, c) })
	}
}

// H_C02_LongReader: R1 holds a read lock forever; W waits for write and is cancelled; R2 must get in.
func H_C02_LongReader() {
	var m csync.RWMutex
	vrt.Go("r1", func() {
		_, err := m.Lock(context.Background(), false)
		if err != nil {
			return
		}
		vrt.Park()
	})
	vrt.Go("w", func() {
		ctx, cancel := context.WithCancel(context.Background())
		vrt.Go("canceller", cancel)
		rel, err := m.Lock(ctx, true)
		if err == nil {
			rel()
		}
	})
	vrt.Go("r2", func() {
		rel, err := m.Lock(context.Background(), false)
		if err == nil {
			rel()
		}
	})
}

// H_C01_Mutex3Roles: three actors with fixed roles (no symmetry): a Lock with cancellation,
// a TryLock, and a Lock with double release.
func H_C01_Mutex3Roles() {
	var m csync.Mutex
	var occ int
	enter := func() {
		vrt.Atomic(func() {
			occ++
			vrt.Assert(occ == 1, "mutex-excl")
		})
		vrt.Atomic(func() { occ-- })
	}
	vrt.Go("lock-cancel", func() {
		ctx, cancel := context.WithCancel(context.Background())
		vrt.Go("canceller", cancel)
		rel, err := m.Lock(ctx)
		if err != nil {
			return
		}
		enter()
		rel()
	})
	vrt.Go("try", func() {
		rel, ok := m.TryLock()
		if !ok {
			return
		}
		enter()
		rel()
	})
	vrt.Go("lock-double", func() {
		rel, err := m.Lock(context.Background())
		if err != nil {
			return
		}
		enter()
		rel()
		rel()
	})
}

// H_C01_Mutex3RolesEnv: like H_C01_Mutex3Roles, but the cancellation is an environment event.
func H_C01_Mutex3RolesEnv() {
	var m csync.Mutex
	var occ int
	enter := func() {
		vrt.Atomic(func() {
			occ++
			vrt.Assert(occ == 1, "mutex-excl")
		})
		vrt.Atomic(func() { occ-- })
	}
	vrt.Go("lock-cancel", func() {
		ctx, cancel := context.WithCancel(context.Background())
		vrt.CancelAnytime(cancel)
		rel, err := m.Lock(ctx)
		if err != nil {
			vrt.Cover("lock-returned-cancelled")
			return
		}
		vrt.Cover("lock-granted-on-slow-or-fast-path")
		enter()
		rel()
	})
	vrt.Go("try", func() {
		rel, ok := m.TryLock()
		if !ok {
			return
		}
		enter()
		rel()
	})
	vrt.Go("lock-double", func() {
		rel, err := m.Lock(context.Background())
		if err != nil {
			return
		}
		enter()
		rel()
		rel()
	})
}
