package harness

import (
	"context"

	"github.com/aperturerobotics/util/iocloser"
	"github.com/aperturerobotics/util/iosizer"
	"github.com/aperturerobotics/util/keyed"
	"github.com/aperturerobotics/util/refcount"
	"github.com/aperturerobotics/util/routine"
	"gobmc/vrt"
)

// The C13 harnesses are small client programs that call the concurrency-safe types from
// several goroutines; they are run with the engine's race class: a violation is a schedule in
// which two threads are simultaneously about to perform conflicting plain (non-atomic) accesses
// to the same cell, at least one of them in library code.

type nopRW struct{}

func (nopRW) Read(p []byte) (int, error)  { return len(p), nil }
func (nopRW) Write(p []byte) (int, error) { return len(p), nil }

// H_C13_IO: ReadCloser Read || Close, WriteCloser Write || Close, SizeReadWriter
// Read || Write || TotalSize.
func H_C13_IO() {
	rc := iocloser.NewReadCloser(nopRW{}, func() error { return nil })
	wc := iocloser.NewWriteCloser(nopRW{}, func() error { return nil })
	sz := iosizer.NewSizeReadWriter(nopRW{}, nopRW{})
	buf1, buf2 := make([]byte, 2), make([]byte, 2)
	vrt.Go("reader", func() {
		rc.Read(buf1)
		sz.Read(buf1)
		wc.Close()
	})
	vrt.Go("writer", func() {
		wc.Write(buf2)
		sz.Write(buf2)
		rc.Close()
		_ = sz.TotalSize()
	})
}

// H_C13_Keyed: SetKey || RemoveKey+GetKeys || SyncKeys on one Keyed with a context.
func H_C13_Keyed() {
	ctor := func(key int) (keyed.Routine, int) { return untilCancelled, key }
	k := keyed.NewKeyed[int, int](ctor)
	k.SetContext(context.Background(), true)
	vrt.Go("set", func() { k.SetKey(1, true) })
	vrt.Go("remove", func() {
		k.RemoveKey(1)
		_ = k.GetKeys()
	})
	vrt.AtQuiescence(func() { k.ClearContext() })
}

// H_C13_KeyedRef: AddKeyRef || Release || RemoveKey on a KeyedRefCount.
func H_C13_KeyedRef() {
	ctor := func(key int) (keyed.Routine, int) { return untilCancelled, key }
	k := keyed.NewKeyedRefCount[int, int](ctor)
	ref, _, _ := k.AddKeyRef(1)
	vrt.Go("release", func() { ref.Release() })
	vrt.Go("add", func() {
		r2, _, _ := k.AddKeyRef(1)
		r2.Release()
	})
	vrt.Go("remove", func() { k.RemoveKey(1) })
}

// H_C13_RefCount: AddRef/Release || SetContext || resolver completion on a RefCount.
func H_C13_RefCount() {
	resolver := func(ctx context.Context, released func()) (int, func(), error) { return 1, func() {}, nil }
	ctxB, cancelB := context.WithCancel(context.Background())
	rc := refcount.NewRefCount[int](context.Background(), false, nil, nil, resolver)
	vrt.Go("ref", func() {
		r := rc.AddRef(func(resolved bool, val int, err error) {})
		r.Release()
	})
	vrt.Go("ctx", func() { rc.SetContext(ctxB) })
	vrt.AtQuiescence(func() {
		rc.ClearContext()
		cancelB()
	})
}

// H_C13_Routine: SetRoutine || SetContext || RestartRoutine on a RoutineContainer.
func H_C13_Routine() {
	k := routine.NewRoutineContainer()
	ctxA, cancelA := context.WithCancel(context.Background())
	vrt.Go("set", func() { k.SetRoutine(untilCancelled) })
	vrt.Go("ctx", func() { k.SetContext(ctxA, false) })
	vrt.Go("restart", func() { k.RestartRoutine() })
	vrt.AtQuiescence(func() {
		k.ClearContext()
		cancelA()
	})
}
