// Package report defines the JSON exchanged between the engine (one harness run) and the
// check driver.
package report

import "gobmc/vsched"

type Query struct {
	Name   string  `json:"name"`
	Kind   string  `json:"kind"` // sanity | violations | site | known | bound | cover | spin
	Result string  `json:"result"`
	Sec    float64 `json:"sec"`
}

type Site struct {
	Kind string `json:"kind"` // assert | panic | stuck | race | bound
	ID   string `json:"id"`
	Pos  string `json:"pos"`
}

func (s Site) String() string { return s.Kind + "/" + s.ID + " @" + s.Pos }

type Violation struct {
	Sites []Site        `json:"sites"` // the sites violated in this model
	Trace *vsched.Trace `json:"trace"`
}

type Report struct {
	Harness string  `json:"harness"`
	K       int     `json:"K"`
	U       int     `json:"U"`
	MapCap  int     `json:"mapcap"`
	Fix     string  `json:"fix,omitempty"`
	Status  string  `json:"status"` // ok | inconclusive
	Reason  string  `json:"reason,omitempty"`
	LoadSec float64 `json:"load_sec"`
	EncSec  float64 `json:"encode_sec"`
	SolSec  float64 `json:"solve_sec"`

	Terms     int      `json:"terms"`
	Threads   int      `json:"threads"`
	States    int      `json:"states"`      // distinct (thread, control configuration) encoded
	Firings   int      `json:"transitions"` // guarded firings encoded
	MaxLive   int      `json:"max_live"`
	Shared    int      `json:"shared_cells"`
	Rounds    int      `json:"rounds"`
	Sites     int      `json:"violation_sites"`
	Functions []string `json:"functions"`
	Pruned    int      `json:"pruned_configs"`
	PruneQ    int      `json:"prune_queries"`

	Queries    []Query           `json:"queries"`
	Violations []Violation       `json:"violations"`       // new (not known) violations, each with a model
	Known      []Site            `json:"known"`            // listed known sites that are still satisfiable
	KnownGone  []Site            `json:"known_gone"`       // listed known sites that are no longer satisfiable
	Bounds     map[string]string `json:"bounds"`           // bound kind -> unsat (sufficient) | sat | unknown
	Covers     map[string]string `json:"covers"`           // cover id -> sat | unsat | unknown
	CoverTrace []*vsched.Trace   `json:"cover_traces"`     // witnesses of covers (for native validation)
	Spin       []Site            `json:"spin,omitempty"`   // unwinding failures that no U removes
	Stubs      []string          `json:"stubs,omitempty"`  // environment models exercised
}
