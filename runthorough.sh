#!/bin/bash
# runthorough.sh <log> <deadline-sec> <ids...>: smoke-run the thorough tier of the given properties
# sequentially with an overall budget per property; evidence goes to a scratch directory so that
# the committed (quick-tier) evidence is not replaced.
out=$1; shift; dl=$1; shift
export VERIF_EVIDENCE_DIR=${VERIF_EVIDENCE_DIR:-/tmp/verif-thorough-evidence}
mkdir -p $VERIF_EVIDENCE_DIR
for id in "$@"; do
  t0=$(date +%s)
  res=$(/verif/bin/check -p $id -tier thorough -deadline $dl 2>&1)
  rc=$?
  t1=$(date +%s)
  echo "$id exit=$rc secs=$((t1-t0)) :: $(echo "$res" | tail -n 1)" >> $out
  echo "$res" | grep "^VIOLATION\|^INCONCLUSIVE\|^UNREPRODUCED\|^COVER-REPLAY\|^KNOWN" | cut -c1-300 | sed "s/^/    /" >> $out
done
